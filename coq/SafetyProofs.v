(* Proofs that the modelled core has no crash outcome (C15). *)
From Coq Require Import ZifyBool.
From BV Require Import Base BaseProofs ScriptNum Script Interp Session Tx TxCli Sighash Configure ConfigureProofs.
From BV.Gen Require Import Consts.
Local Open Scope Z_scope.

(* the only crash outcome of the configuration is an output index outside the funding transaction, and input selection excludes it *)
Lemma configure_no_crash : forall sha256 ripemd160 spend funding txid sel i n,
  select_input spend funding txid sel = Some (i, n) -> configure sha256 ripemd160 spend funding i n <> CfgCrash.
Proof.
  intros sha256 ripemd160 spend funding txid sel i n H. destruct (select_sound _ _ _ _ _ _ H) as (x & prev & _ & _ & _ & _ & Hp & _ & _).
  unfold configure. rewrite Hp. destruct (ti_witness _); [discriminate|].
  destruct (find_validation _ _ _ _) as [v| |] eqn:Ev; try discriminate.
  - destruct (split_program v) as [[verop program]| |] eqn:Es; try discriminate.
    + destruct (verop =? OP_0).
      * unfold configure_v0. repeat match goal with |- context [if ?c then _ else _] => destruct c end; discriminate.
      * unfold configure_v1. repeat match goal with
                                    | |- context [if ?c then _ else _] => destruct c
                                    | |- context [match ?x with _ => _ end] => destruct x
                                    end; discriminate.
    + exfalso. unfold split_program in Es. repeat match type of Es with
                                    | context [if ?c then _ else _] => destruct c
                                    | context [match ?x with _ => _ end] => destruct x
                                    end; discriminate.
  - exfalso. unfold find_validation in Ev. repeat match type of Ev with
                                    | context [if ?c then _ else _] => destruct c
                                    | context [match ?x with _ => _ end] => destruct x
                                    end; discriminate.
Qed.

(* ------------------------------------------------------------------ one interpreter step never crashes *)
From BV Require Import NumExpr ExtProofs.
From BV.Gen Require Import Sites NumOps.

Definition nc (r : see * status) : Prop := forall x, snd r <> SCrash x.

(* what the session guarantees about the environment: pbegincodehash points into a live script, and a tapscript session carries
   an initialised validation-weight budget (setup_environment / configure_tx_txin) *)
Definition safe (c : cfg) (e : see) : Prop :=
  e_cb e <> None /\
  ((c_sigver c =? SV_BASE) || (c_sigver c =? SV_WITNESS_V0) || (c_sigver c =? SV_TAPROOT) = false -> ed_weight_init (e_ed e) = true).

Lemma nc_ok e : nc (ok e). Proof. intros x. cbn. discriminate. Qed.
Lemma nc_fail e err : nc (fail e err). Proof. intros x. cbn. discriminate. Qed.
Lemma nc_exn e y : nc (e, SExn y). Proof. intros x. cbn. discriminate. Qed.
Lemma nc_err e : nc (e, SErr). Proof. intros x. cbn. discriminate. Qed.
Lemma nc_sok e : nc (e, SOk). Proof. intros x. cbn. discriminate. Qed.
#[global] Hint Resolve nc_ok nc_fail nc_exn nc_err nc_sok : nocrash.

Lemma sn_ctor_no_crash v m n x : sn_ctor v m n <> Crash x.
Proof. unfold sn_ctor. destruct (n <? length v)%nat; [discriminate|]. destruct (m && sn_nonminimal v); discriminate. Qed.

Ltac nc_leaf := first [apply nc_ok | apply nc_fail | apply nc_exn | apply nc_err | apply nc_sok].
Ltac nc_split :=
  repeat match goal with
         | |- nc (if ?b then _ else _) => destruct b
         | |- nc (let '(_, _) := ?x in _) => destruct x
         end.

Section NoCrash.
Variable low_s : bytes -> bool.
Variable c : cfg.

Lemma nc_with_num v n e k : (forall z, nc (k z)) -> nc (with_num c v n e k).
Proof.
  intros H. unfold with_num. destruct (sn_ctor v (req_minimal c) n) eqn:E; [apply H|apply nc_exn|].
  exfalso. eapply sn_ctor_no_crash. exact E.
Qed.
Lemma nc_need e n err k : nc k -> nc (need e n err k).
Proof. intros H. unfold need. destruct (ssize e <? n); [apply nc_fail|exact H]. Qed.

Lemma num_at_cases e k m : (exists z, num_at c e k m = Ok z) \/ (exists y, num_at c e k m = Exn y).
Proof.
  unfold num_at. destruct (sn_ctor (stop e k) (req_minimal c) m) eqn:E; [left; eauto|right; eauto|].
  exfalso. eapply sn_ctor_no_crash. exact E.
Qed.

(* the numeric opcode tables have an entry for every opcode the switch sends to them *)
Lemma unary_num_total : forall opcode bn,
  (opcode =? OP_1ADD) || (opcode =? OP_1SUB) || (opcode =? OP_NEGATE) || (opcode =? OP_ABS) || (opcode =? OP_NOT) || (opcode =? OP_0NOTEQUAL) = true ->
  unary_num opcode bn <> None.
Proof.
  intros opcode bn H.
  repeat (apply Bool.orb_true_iff in H; destruct H as [H|H]); apply Z.eqb_eq in H; subst opcode; vm_compute; discriminate.
Qed.

Lemma binary_num_total : forall opcode a b,
  ((OP_ADD <=? opcode) && (opcode <=? OP_SUB)) || ((OP_BOOLAND <=? opcode) && (opcode <=? OP_MAX)) = true ->
  binary_num opcode a b <> None.
Proof.
  intros opcode a b H.
  assert (Hc: opcode = OP_ADD \/ opcode = OP_SUB \/ opcode = OP_BOOLAND \/ opcode = OP_BOOLOR \/ opcode = OP_NUMEQUAL \/ opcode = OP_NUMEQUALVERIFY \/
              opcode = OP_NUMNOTEQUAL \/ opcode = OP_LESSTHAN \/ opcode = OP_GREATERTHAN \/ opcode = OP_LESSTHANOREQUAL \/ opcode = OP_GREATERTHANOREQUAL \/
              opcode = OP_MIN \/ opcode = OP_MAX).
  { apply Bool.orb_true_iff in H. destruct H as [H|H]; apply andb_prop in H; destruct H as [H1 H2]; apply Z.leb_le in H1; apply Z.leb_le in H2;
    unfold OP_ADD, OP_SUB, OP_BOOLAND, OP_BOOLOR, OP_NUMEQUAL, OP_NUMEQUALVERIFY, OP_NUMNOTEQUAL, OP_LESSTHAN, OP_GREATERTHAN, OP_LESSTHANOREQUAL,
           OP_GREATERTHANOREQUAL, OP_MIN, OP_MAX in *; lia. }
  unfold binary_num.
  repeat (destruct Hc as [Hc|Hc]; [subst opcode; vm_compute; discriminate|]). subst opcode; vm_compute; discriminate.
Qed.

(* signature checks *)
Lemma nc_eval_checksig_pre e sig key : safe c e -> forall x, snd (fst (eval_checksig_pre low_s c e sig key)) <> SCrash x.
Proof.
  intros [Hcb _] x. unfold eval_checksig_pre, script_code. destruct (e_cb e) as [code0|]; [|contradiction].
  repeat match goal with
         | |- context [if ?b then _ else _] => destruct b
         | |- context [let '(_, _) := ?q in _] => destruct q
         | |- context [match ?q with Some _ => _ | None => _ end] => destruct q
         end; cbn; discriminate.
Qed.

Lemma nc_eval_checksig_tapscript e sig key : ed_weight_init (e_ed e) = true -> forall x, snd (fst (eval_checksig_tapscript c e sig key)) <> SCrash x.
Proof.
  intros Hw x. unfold eval_checksig_tapscript. rewrite Hw. cbn [negb].
  repeat match goal with
         | |- context [if ?b then _ else _] => destruct b
         | |- context [let '(_, _) := ?q in _] => destruct q
         end; cbn; discriminate.
Qed.

Lemma nc_eval_checksig e sig key : safe c e -> forall x, snd (fst (eval_checksig low_s c e sig key)) <> SCrash x.
Proof.
  intros Hs x. unfold eval_checksig.
  destruct (pv_has_key c key && pv_match c sig key); [cbn; discriminate|].
  destruct (c_sigver c =? SV_TAPROOT) eqn:E2.
  - destruct (k_schnorr (c_chk c) sig key SV_TAPROOT (e_ed e)) as [okv err]. destruct okv; cbn; discriminate.
  - destruct ((c_sigver c =? SV_BASE) || (c_sigver c =? SV_WITNESS_V0)) eqn:E1.
    + apply nc_eval_checksig_pre. exact Hs.
    + apply nc_eval_checksig_tapscript. destruct Hs as [_ Hw]. apply Hw. rewrite E1, E2. reflexivity.
Qed.

Lemma nc_op_checksig e opcode : safe c e -> nc (op_checksig low_s c e opcode).
Proof.
  intros Hs. unfold op_checksig. destruct (ssize e <? 2); [apply nc_fail|].
  pose proof (nc_eval_checksig e (stop e 2) (stop e 1) Hs) as H.
  destruct (eval_checksig low_s c e (stop e 2) (stop e 1)) as [[e1 st] fS]. cbn [fst snd] in H.
  destruct st; try (intros x; cbn; first [discriminate | apply H]).
  destruct (opcode =? OP_CHECKSIGVERIFY); [destruct fS|]; nc_leaf.
Qed.

Lemma nc_op_checksigadd e : safe c e -> nc (op_checksigadd low_s c e).
Proof.
  intros Hs. unfold op_checksigadd. destruct ((c_sigver c =? SV_BASE) || (c_sigver c =? SV_WITNESS_V0)); [apply nc_fail|].
  destruct (ssize e <? 3); [apply nc_fail|].
  destruct (num_at_cases e 2 4) as [[z Hz]|[y Hy]]; [rewrite Hz|rewrite Hy; apply nc_exn].
  pose proof (nc_eval_checksig e (stop e 3) (stop e 1) Hs) as H.
  destruct (eval_checksig low_s c e (stop e 3) (stop e 1)) as [[e1 st] fS]. cbn [fst snd] in H.
  destruct st; try (intros x; cbn; first [discriminate | apply H]).
Qed.

Lemma nc_multisig_loop fuel e code isig ikey nS nK : forall x, snd (fst (multisig_loop low_s fuel c e code isig ikey nS nK)) <> SCrash x.
Proof.
  revert isig ikey nS nK. induction fuel as [|f IH]; intros isig ikey nS nK x; cbn [multisig_loop]; [cbn; discriminate|].
  destruct (0 <? nS); [|cbn; discriminate].
  assert (Hstep: forall fOk : bool,
    snd (fst (let isig' := if fOk then isig + 1 else isig in
              let nSigs' := if fOk then nS - 1 else nS in
              let ikey' := ikey + 1 in let nKeys' := nK - 1 in
              if nKeys' <? nSigs' then (e, SOk, false) else multisig_loop low_s f c e code isig' ikey' nSigs' nKeys')) <> SCrash x).
  { intros fOk. cbv zeta. destruct (nK - 1 <? (if fOk then nS - 1 else nS)); [cbn; discriminate|apply IH]. }
  destruct (pv_has_key c (stop e (Z.to_nat ikey))); [apply Hstep|].
  destruct (check_sig_encoding low_s (c_flags c) (stop e (Z.to_nat isig))); [cbn; discriminate|].
  destruct (check_pubkey_encoding (c_flags c) (c_sigver c) (stop e (Z.to_nat ikey))); [cbn; discriminate|].
  apply Hstep.
Qed.

Lemma nc_multisig_cleanup n e fS ikey2 : nc (multisig_cleanup n c e fS ikey2).
Proof.
  revert e ikey2. induction n as [|m IH]; intros e ikey2; cbn [multisig_cleanup]; [apply nc_ok|].
  match goal with |- nc (if ?b then _ else _) => destruct b end; [apply nc_fail|apply IH].
Qed.

Lemma nc_op_checkmultisig e opcode : safe c e -> nc (op_checkmultisig low_s c e opcode).
Proof.
  intros [Hcb _]. unfold op_checkmultisig, multisig_finish.
  destruct (c_sigver c =? SV_TAPSCRIPT); [apply nc_fail|].
  destruct (ssize e <? 1); [apply nc_fail|].
  destruct (num_at_cases e 1 4) as [[kraw Hz]|[y Hy]]; [rewrite Hz|rewrite Hy; apply nc_exn].
  match goal with |- nc (if ?b then _ else _) => destruct b end; [apply nc_fail|].
  set (e0 := set_ops e (e_ops e + sn_getint kraw)).
  match goal with |- nc (if ?b then _ else _) => destruct b end; [apply nc_fail|].
  match goal with |- nc (if ?b then _ else _) => destruct b end; [apply nc_fail|].
  destruct (num_at_cases e0 (Z.to_nat (2 + sn_getint kraw)) 4) as [[sraw Hs]|[y Hy]]; [rewrite Hs|rewrite Hy; apply nc_exn].
  match goal with |- nc (if ?b then _ else _) => destruct b end; [apply nc_fail|].
  match goal with |- nc (if ?b then _ else _) => destruct b end; [apply nc_fail|].
  unfold script_code. change (e_cb e0) with (e_cb e). destruct (e_cb e) as [code0|]; [|contradiction].
  match goal with |- context [multisig_fad ?a ?k0 ?b0 ?s] => destruct (multisig_fad a k0 b0 s) as [code fadfail] end.
  destruct fadfail; [apply nc_fail|].
  match goal with |- context [multisig_loop ?ls ?fu ?cc ?ee ?co ?a1 ?a2 ?a3 ?a4] =>
    pose proof (nc_multisig_loop fu ee co a1 a2 a3 a4) as HL;
    destruct (multisig_loop ls fu cc ee co a1 a2 a3 a4) as [[e1 st] fS] end.
  cbn [fst snd] in HL.
  destruct st; try (intros x; cbn; first [discriminate | apply HL]).
  match goal with |- context [multisig_cleanup ?n ?cc ?ee ?f ?k] =>
    pose proof (nc_multisig_cleanup n ee f k) as HC; destruct (multisig_cleanup n cc ee f k) as [e2 st2] end.
  destruct st2; try (intros x; cbn; first [discriminate | apply HC]).
  destruct (ssize e2 <? 1); [apply nc_fail|].
  match goal with |- nc (if ?b then _ else _) => destruct b end; [apply nc_fail|].
  destruct (opcode =? OP_CHECKMULTISIGVERIFY); [destruct fS|]; nc_leaf.
Qed.

(* the whole opcode switch *)
Lemma nc_exec_opcode e opcode fExec pc' : safe c e -> nc (exec_opcode low_s c e opcode fExec pc').
Proof.
  intros Hs. unfold exec_opcode.
  destruct (is_extended_op opcode) eqn:Eext. { intros x. apply ext_no_crash. exact Eext. }
  repeat match goal with
         | |- nc (need _ _ _ _) => apply nc_need
         | |- nc (with_num _ _ _ _ _) => apply nc_with_num; intros
         | |- nc (op_checksig _ _ _ _) => apply nc_op_checksig; exact Hs
         | |- nc (op_checksigadd _ _ _) => apply nc_op_checksigadd; exact Hs
         | |- nc (op_checkmultisig _ _ _ _) => apply nc_op_checkmultisig; exact Hs
         | |- nc (match num_at ?a ?b ?k ?m with _ => _ end) =>
             let z := fresh "z" in let Hz := fresh "Hz" in let y := fresh "y" in
             destruct (num_at_cases b k m) as [[z Hz]|[y Hz]]; rewrite Hz; [|apply nc_exn]
         | |- nc (match unary_num ?a ?b with _ => _ end) =>
             let E := fresh "E" in destruct (unary_num a b) eqn:E; [|exfalso; eapply unary_num_total; [|exact E]; assumption]
         | |- nc (match binary_num ?a ?b ?k with _ => _ end) =>
             let E := fresh "E" in destruct (binary_num a b k) eqn:E; [|exfalso; eapply binary_num_total; [|exact E]; assumption]
         | |- nc (match e_alt ?a with _ => _ end) => destruct (e_alt a)
         | |- nc (let _ := _ in _) => cbv zeta
         | |- nc (if ?b then _ else _) => let E := fresh "Eb" in destruct b eqn:E
         end; try nc_leaf.
Qed.

Theorem step_script_no_crash e pc local : safe c e -> forall x, snd (step_script low_s c e pc local) <> SCrash x.
Proof.
  intros Hs x. unfold step_script.
  destruct (get_op pc) as [[[opcode push]|] pc']; [|cbn; discriminate].
  match goal with |- context [if ?b then _ else _] => destruct b end; [cbn; discriminate|].
  set (count := ((c_sigver c =? SV_BASE) || (c_sigver c =? SV_WITNESS_V0)) && cmp_eval (fst site_opcount_threshold) opcode (snd site_opcount_threshold)).
  set (e0 := if count then set_ops e (e_ops e + 1) else e).
  assert (H0: safe c e0) by (subst e0; destruct count; exact Hs).
  match goal with |- context [if ?b then _ else _] => destruct b end; [cbn; discriminate|].
  match goal with |- context [if ?b then _ else _] => destruct b end; [cbn; discriminate|].
  match goal with |- context [if ?b then _ else _] => destruct b end; [cbn; discriminate|].
  match goal with |- context [let '(_, _) := ?q in _] => assert (HX: nc q); [|destruct q as [e1 st]] end.
  { repeat match goal with |- nc (if ?b then _ else _) => destruct b end; try nc_leaf. apply nc_exec_opcode. exact H0. }
  destruct st; cbn [snd]; try discriminate.
  - match goal with |- context [if ?b then _ else _] => destruct b end; cbn; discriminate.
  - apply (HX x).
Qed.
End NoCrash.

(* every session starts in a safe environment: pbegincodehash is the start of the script; a tapscript configuration carries the weight budget *)
Lemma setup_env_safe : forall c script stack succ ed t,
  ((c_sigver c =? SV_BASE) || (c_sigver c =? SV_WITNESS_V0) || (c_sigver c =? SV_TAPROOT) = false -> ed_weight_init ed = true) ->
  safe c (i_e (setup_env c script stack succ ed t)).
Proof. intros c script stack succ ed t H. split; [cbn; discriminate|exact H]. Qed.

(* ------------------------------------------------------------------ the safe environment is preserved by every step *)
(* [sp e e']: e' keeps a live pbegincodehash if e had one, and the same weight-initialised bit *)
Definition sp (e e' : see) : Prop :=
  (e_cb e <> None -> e_cb e' <> None) /\ ed_weight_init (e_ed e') = ed_weight_init (e_ed e).
Lemma sp_refl e : sp e e. Proof. split; [auto|reflexivity]. Qed.
Lemma sp_trans a b c : sp a b -> sp b c -> sp a c. Proof. intros [H1 H2] [H3 H4]. split; [auto|congruence]. Qed.
Lemma sp_set_stack e s : sp e (set_stack e s). Proof. split; [auto|reflexivity]. Qed.
Lemma sp_set_alt e s : sp e (set_alt e s). Proof. split; [auto|reflexivity]. Qed.
Lemma sp_set_cond e s : sp e (set_cond e s). Proof. split; [auto|reflexivity]. Qed.
Lemma sp_set_ops e s : sp e (set_ops e s). Proof. split; [auto|reflexivity]. Qed.
Lemma sp_set_err e s : sp e (set_err e s). Proof. split; [auto|reflexivity]. Qed.
Lemma sp_pushs e v : sp e (pushs e v). Proof. split; [auto|reflexivity]. Qed.
Lemma sp_popn e n : sp e (popn e n). Proof. split; [auto|reflexivity]. Qed.
Lemma sp_set_cb_some e p : sp e (set_cb e (Some p)). Proof. split; [intros _; cbn; discriminate|reflexivity]. Qed.
Lemma sp_set_ed e d : ed_weight_init d = ed_weight_init (e_ed e) -> sp e (set_ed e d). Proof. intros H. split; [auto|exact H]. Qed.
Lemma sp_safe c e e' : sp e e' -> safe c e -> safe c e'.
Proof. intros [H1 H2] [Ha Hb]. split; [auto|]. intros Hc. rewrite H2. auto. Qed.

Ltac sp_step :=
  match goal with
  | |- sp ?e ?e => apply sp_refl
  | H : sp ?a ?b |- sp ?a ?b => exact H
  | |- sp ?e (set_stack ?x _) => apply (sp_trans e x); [|apply sp_set_stack]
  | |- sp ?e (set_alt ?x _) => apply (sp_trans e x); [|apply sp_set_alt]
  | |- sp ?e (set_cond ?x _) => apply (sp_trans e x); [|apply sp_set_cond]
  | |- sp ?e (set_ops ?x _) => apply (sp_trans e x); [|apply sp_set_ops]
  | |- sp ?e (set_err ?x _) => apply (sp_trans e x); [|apply sp_set_err]
  | |- sp ?e (pushs ?x _) => apply (sp_trans e x); [|apply sp_pushs]
  | |- sp ?e (popn ?x _) => apply (sp_trans e x); [|apply sp_popn]
  | |- sp ?e (set_cb ?x (Some _)) => apply (sp_trans e x); [|apply sp_set_cb_some]
  | |- sp _ (set_ed (match ?x with Some _ => _ | None => _ end) _) => destruct x
  | |- sp ?e (set_ed ?x _) => apply (sp_trans e x); [|apply sp_set_ed; reflexivity]
  | |- sp _ (if ?b then _ else _) => destruct b
  | |- sp _ (match ?x with Some _ => _ | None => _ end) => destruct x
  end.
Ltac sp_solve := repeat sp_step.

(* a result "keeps safety" whatever its status *)
Definition spr (e : see) (r : see * status) : Prop := sp e (fst r).
Lemma spr_ok e e' : sp e e' -> spr e (ok e'). Proof. auto. Qed.
Lemma spr_fail e e' err : sp e e' -> spr e (fail e' err). Proof. intros H. unfold spr, fail. cbn [fst]. sp_solve. Qed.
Lemma spr_same e st : spr e (e, st). Proof. apply sp_refl. Qed.

Ltac spr_leaf :=
  match goal with
  | |- spr _ (ok _) => apply spr_ok; sp_solve
  | |- spr _ (fail _ _) => apply spr_fail; sp_solve
  | |- spr _ (_, _) => unfold spr; cbn [fst]; sp_solve
  end.

Section SafePres.
Variable low_s : bytes -> bool.
Variable c : cfg.

Lemma spr_with_num v n e k : (forall z, spr e (k z)) -> spr e (with_num c v n e k).
Proof. intros H. unfold with_num. destruct (sn_ctor v (req_minimal c) n); [apply H|apply spr_same|apply spr_same]. Qed.
Lemma spr_need e n err k : spr e k -> spr e (need e n err k).
Proof. intros H. unfold need. destruct (ssize e <? n); [spr_leaf|exact H]. Qed.

Lemma spr_step_extended e opcode : spr e (step_extended c e opcode).
Proof.
  unfold step_extended.
  repeat match goal with
         | |- spr _ (if ?b then _ else _) => destruct b
         | |- spr _ (with_num _ _ _ _ _) => apply spr_with_num; intros
         end; spr_leaf.
Qed.

Ltac spr_auto :=
  cbv zeta;
  repeat match goal with
         | |- context [if ?b then _ else _] => destruct b
         | |- context [let '(_, _) := ?x in _] => destruct x
         | |- context [match ?x with Some _ => _ | None => _ end] => destruct x
         end; cbn [fst snd]; spr_leaf.

Lemma sp_eval_checksig_pre e sig key : sp e (fst (fst (eval_checksig_pre low_s c e sig key))).
Proof. unfold eval_checksig_pre, script_code.
  repeat match goal with
         | |- context [if ?b then _ else _] => destruct b
         | |- context [let '(_, _) := ?x in _] => destruct x
         | |- context [match ?x with Some _ => _ | None => _ end] => destruct x
         end; cbn [fst snd]; sp_solve.
Qed.
Lemma sp_eval_checksig_tapscript e sig key : sp e (fst (fst (eval_checksig_tapscript c e sig key))).
Proof. unfold eval_checksig_tapscript.
  repeat match goal with
         | |- context [if ?b then _ else _] => destruct b
         | |- context [let '(_, _) := ?x in _] => destruct x
         end; cbn [fst snd]; sp_solve.
Qed.
Lemma sp_eval_checksig e sig key : sp e (fst (fst (eval_checksig low_s c e sig key))).
Proof.
  unfold eval_checksig. destruct (pv_has_key c key && pv_match c sig key); [cbn; apply sp_refl|].
  destruct (c_sigver c =? SV_TAPROOT).
  - destruct (k_schnorr (c_chk c) sig key SV_TAPROOT (e_ed e)) as [okv err]. cbn. apply sp_refl.
  - destruct ((c_sigver c =? SV_BASE) || (c_sigver c =? SV_WITNESS_V0)); [apply sp_eval_checksig_pre|apply sp_eval_checksig_tapscript].
Qed.

Lemma spr_op_checksig e opcode : spr e (op_checksig low_s c e opcode).
Proof.
  unfold op_checksig. destruct (ssize e <? 2); [spr_leaf|].
  pose proof (sp_eval_checksig e (stop e 2) (stop e 1)) as H.
  destruct (eval_checksig low_s c e (stop e 2) (stop e 1)) as [[e1 st] fS]. cbn [fst] in H.
  destruct st; try exact H.
  destruct (opcode =? OP_CHECKSIGVERIFY); [destruct fS|]; first [exact H | spr_leaf].
Qed.
Lemma spr_op_checksigadd e : spr e (op_checksigadd low_s c e).
Proof.
  unfold op_checksigadd. destruct ((c_sigver c =? SV_BASE) || (c_sigver c =? SV_WITNESS_V0)); [spr_leaf|].
  destruct (ssize e <? 3); [spr_leaf|].
  destruct (num_at c e 2 4); try apply spr_same.
  pose proof (sp_eval_checksig e (stop e 3) (stop e 1)) as H.
  destruct (eval_checksig low_s c e (stop e 3) (stop e 1)) as [[e1 st] fS]. cbn [fst] in H.
  destruct st; first [exact H | spr_leaf].
Qed.

Lemma sp_multisig_loop fuel e code isig ikey nS nK : sp e (fst (fst (multisig_loop low_s fuel c e code isig ikey nS nK))).
Proof.
  revert isig ikey nS nK. induction fuel as [|f IH]; intros isig ikey nS nK; cbn [multisig_loop]; [cbn; apply sp_refl|].
  destruct (0 <? nS); [|cbn; apply sp_refl].
  assert (Hstep: forall fOk : bool,
    sp e (fst (fst (let isig' := if fOk then isig + 1 else isig in
              let nSigs' := if fOk then nS - 1 else nS in
              let ikey' := ikey + 1 in let nKeys' := nK - 1 in
              if nKeys' <? nSigs' then (e, SOk, false) else multisig_loop low_s f c e code isig' ikey' nSigs' nKeys')))).
  { intros fOk. cbv zeta. destruct (nK - 1 <? (if fOk then nS - 1 else nS)); [cbn; apply sp_refl|apply IH]. }
  destruct (pv_has_key c (stop e (Z.to_nat ikey))); [apply Hstep|].
  destruct (check_sig_encoding low_s (c_flags c) (stop e (Z.to_nat isig))); [cbn; sp_solve|].
  destruct (check_pubkey_encoding (c_flags c) (c_sigver c) (stop e (Z.to_nat ikey))); [cbn; sp_solve|].
  apply Hstep.
Qed.
Lemma spr_multisig_cleanup n e fS ikey2 : spr e (multisig_cleanup n c e fS ikey2).
Proof.
  revert e ikey2. induction n as [|m IH]; intros e ikey2; cbn [multisig_cleanup]; [spr_leaf|].
  match goal with |- spr _ (if ?b then _ else _) => destruct b end; [spr_leaf|].
  unfold spr. apply (sp_trans e (popn e 1)); [apply sp_popn|apply IH].
Qed.
Lemma spr_op_checkmultisig e opcode : spr e (op_checkmultisig low_s c e opcode).
Proof.
  unfold op_checkmultisig, multisig_finish.
  destruct (c_sigver c =? SV_TAPSCRIPT); [spr_leaf|].
  destruct (ssize e <? 1); [spr_leaf|].
  destruct (num_at c e 1 4) as [kraw|x|x]; try apply spr_same.
  match goal with |- spr _ (if ?b then _ else _) => destruct b end; [spr_leaf|].
  set (e0 := set_ops e (e_ops e + sn_getint kraw)).
  assert (H0: sp e e0) by apply sp_set_ops.
  match goal with |- spr _ (if ?b then _ else _) => destruct b end; [spr_leaf|].
  match goal with |- spr _ (if ?b then _ else _) => destruct b end; [spr_leaf|].
  destruct (num_at c e0 (Z.to_nat (2 + sn_getint kraw)) 4) as [sraw|x|x]; try (unfold spr; cbn [fst]; exact H0).
  match goal with |- spr _ (if ?b then _ else _) => destruct b end; [spr_leaf|].
  match goal with |- spr _ (if ?b then _ else _) => destruct b end; [spr_leaf|].
  unfold script_code. destruct (e_cb e0); [|unfold spr; cbn [fst]; exact H0].
  match goal with |- context [multisig_fad ?a ?k0 ?b0 ?s] => destruct (multisig_fad a k0 b0 s) as [code fadfail] end.
  destruct fadfail; [spr_leaf|].
  match goal with |- context [multisig_loop ?ls ?fu ?cc ?ee ?co ?a1 ?a2 ?a3 ?a4] =>
    pose proof (sp_multisig_loop fu ee co a1 a2 a3 a4) as HL;
    destruct (multisig_loop ls fu cc ee co a1 a2 a3 a4) as [[e1 st] fS] end.
  cbn [fst] in HL.
  assert (H1: sp e e1) by (apply (sp_trans e e0); assumption).
  destruct st; try (unfold spr; cbn [fst]; exact H1).
  match goal with |- context [multisig_cleanup ?n ?cc ?ee ?f ?k] =>
    pose proof (spr_multisig_cleanup n ee f k) as HC; destruct (multisig_cleanup n cc ee f k) as [e2 st2] end.
  unfold spr in HC. cbn [fst] in HC.
  assert (H2: sp e e2) by (apply (sp_trans e e1); assumption).
  destruct st2; try (unfold spr; cbn [fst]; exact H2).
  destruct (ssize e2 <? 1); [spr_leaf|].
  match goal with |- spr _ (if ?b then _ else _) => destruct b end; [spr_leaf|].
  destruct (opcode =? OP_CHECKMULTISIGVERIFY); [destruct fS|]; spr_leaf.
Qed.

Lemma spr_exec_opcode e opcode fExec pc' : spr e (exec_opcode low_s c e opcode fExec pc').
Proof.
  unfold exec_opcode.
  repeat match goal with
         | |- spr _ (if ?b then _ else _) => destruct b
         | |- spr _ (need _ _ _ _) => apply spr_need
         | |- spr _ (with_num _ _ _ _ _) => apply spr_with_num; intros
         | |- spr _ (step_extended _ _ _) => apply spr_step_extended
         | |- spr _ (op_checksig _ _ _ _) => apply spr_op_checksig
         | |- spr _ (op_checksigadd _ _ _) => apply spr_op_checksigadd
         | |- spr _ (op_checkmultisig _ _ _ _) => apply spr_op_checkmultisig
         | |- spr _ (match num_at ?a ?b ?k ?m with _ => _ end) => destruct (num_at a b k m)
         | |- spr _ (match unary_num ?a ?b with _ => _ end) => destruct (unary_num a b)
         | |- spr _ (match binary_num ?a ?b ?k with _ => _ end) => destruct (binary_num a b k)
         | |- spr _ (match e_alt ?a with _ => _ end) => destruct (e_alt a)
         | |- spr _ (let _ := _ in _) => cbv zeta
         end; try spr_leaf.
Qed.

Theorem step_script_keeps_safe e pc local : safe c e -> safe c (fst (fst (step_script low_s c e pc local))).
Proof.
  intros Hs. apply (sp_safe c e); [|exact Hs]. unfold step_script.
  destruct (get_op pc) as [[[opcode push]|] pc']; cbn [fst]; [|sp_solve].
  match goal with |- context [if ?b then _ else _] => destruct b end; cbn [fst]; [sp_solve|].
  set (count := ((c_sigver c =? SV_BASE) || (c_sigver c =? SV_WITNESS_V0)) && cmp_eval (fst site_opcount_threshold) opcode (snd site_opcount_threshold)).
  set (e0 := if count then set_ops e (e_ops e + 1) else e).
  assert (H0: sp e e0) by (subst e0; destruct count; [apply sp_set_ops|apply sp_refl]).
  match goal with |- context [if ?b then _ else _] => destruct b end; cbn [fst]; [sp_solve|].
  match goal with |- context [if ?b then _ else _] => destruct b end; cbn [fst]; [sp_solve|].
  match goal with |- context [if ?b then _ else _] => destruct b end; cbn [fst]; [sp_solve|].
  match goal with |- context [let '(_, _) := ?q in _] => assert (HX: spr e0 q); [|destruct q as [e1 st]] end.
  { repeat match goal with |- spr _ (if ?b then _ else _) => destruct b end; try spr_leaf. apply spr_exec_opcode. }
  unfold spr in HX. cbn [fst] in HX.
  assert (H1: sp e e1) by (apply (sp_trans e e0); assumption).
  destruct st; cbn [fst]; try exact H1.
  match goal with |- context [if ?b then _ else _] => destruct b end; cbn [fst]; sp_solve.
Qed.
End SafePres.

(* ------------------------------------------------------------------ the debugger's step (with the scriptPubKey / P2SH / taproot phases) *)
Section SessionSafety.
Variable low_s : bytes -> bool.
Variable tap_tweak_ok : bytes -> bytes -> bytes -> bool -> bool.
Variable sha256 : bytes -> bytes.
Variable c : cfg.
Notation dbg_step := (Session.dbg_step low_s tap_tweak_ok sha256).

Theorem dbg_step_no_crash : forall v, safe c (i_e v) -> forall x, snd (dbg_step c v) <> SCrash x.
Proof.
  intros v Hs x. unfold Session.dbg_step.
  destruct (i_tce v) as [t|].
  - destruct (tce_iterate tap_tweak_ok sha256 t) as [t' st]. destruct st; cbn; discriminate.
  - destruct (i_pc v) as [|b r] eqn:Epc.
    + repeat match goal with
             | |- context [if ?q then _ else _] => destruct q
             | |- context [match ?q with [] => _ | _ :: _ => _ end] => destruct q
             end; cbn; discriminate.
    + pose proof (step_script_no_crash low_s c (i_e v) (b :: r) false Hs x) as H.
      destruct (step_script low_s c (i_e v) (b :: r) false) as [[e1 pc1] st]. cbn [snd] in H.
      destruct st; cbn; try discriminate. exact H.
Qed.

Theorem dbg_step_keeps_safe : forall v, safe c (i_e v) -> safe c (i_e (fst (dbg_step c v))).
Proof.
  intros v Hs. unfold Session.dbg_step.
  destruct (i_tce v) as [t|].
  - destruct (tce_iterate tap_tweak_ok sha256 t) as [t' st]. destruct st; cbn [fst]; exact Hs.
  - destruct (i_pc v) as [|b r] eqn:Epc.
    + destruct Hs as [Ha Hb].
      repeat match goal with
             | |- context [if ?q then _ else _] => destruct q
             | |- context [match ?q with [] => _ | _ :: _ => _ end] => destruct q
             end; cbn [fst]; (split; [cbn; first [exact Ha | discriminate]|exact Hb]).
    + pose proof (step_script_keeps_safe low_s c (i_e v) (b :: r) false Hs) as H.
      destruct (step_script low_s c (i_e v) (b :: r) false) as [[e1 pc1] st]. cbn [fst] in H.
      destruct st; cbn [fst]; (destruct H as [Ha Hb]; split; [exact Ha|exact Hb]).
Qed.

(* any number of debugger steps, whatever they return, from a safe start: never a crash outcome *)
Fixpoint steps (n : nat) (v : ienv) : ienv :=
  match n with O => v | S m => steps m (fst (dbg_step c v)) end.

Theorem session_never_crashes : forall n v, safe c (i_e v) -> forall x, snd (dbg_step c (steps n v)) <> SCrash x.
Proof.
  induction n as [|n IH]; intros v Hs x; cbn [steps]; [apply dbg_step_no_crash; exact Hs|].
  apply IH. apply dbg_step_keeps_safe. exact Hs.
Qed.
End SessionSafety.

(* ------------------------------------------------------------------ any sequence of debugger COMMANDS: step, rewind, exec *)
Section CommandSafety.
Variable low_s : bytes -> bool.
Variable tap_tweak_ok : bytes -> bytes -> bytes -> bool -> bool.
Variable sha256 : bytes -> bytes.
Variable c : cfg.
Notation dbg_step := (Session.dbg_step low_s tap_tweak_ok sha256).
Notation inst_step := (Session.inst_step low_s tap_tweak_ok sha256).
Notation inst_eval := (Session.inst_eval low_s).
Notation eval_loop := (Session.eval_loop low_s).

(* a history entry from which rewind can restore a safe environment *)
Definition hsafe (h : snapshot) : Prop :=
  h_cb h <> None /\
  ((c_sigver c =? SV_BASE) || (c_sigver c =? SV_WITNESS_V0) || (c_sigver c =? SV_TAPROOT) = false -> ed_weight_init (h_ed h) = true).
(* the session invariant: the environment is safe and so is everything rewind can bring back *)
Definition ssafe (v : ienv) : Prop := safe c (i_e v) /\ Forall hsafe (i_hist v).

Lemma snap_hsafe v : safe c (i_e v) -> hsafe (snap v).
Proof. intros [Ha Hb]. split; [exact Ha|exact Hb]. Qed.

Lemma setup_env_ssafe : forall script stack succ ed t,
  ((c_sigver c =? SV_BASE) || (c_sigver c =? SV_WITNESS_V0) || (c_sigver c =? SV_TAPROOT) = false -> ed_weight_init ed = true) ->
  ssafe (setup_env c script stack succ ed t).
Proof. intros script stack succ ed t H. split; [apply setup_env_safe; exact H|constructor]. Qed.

Lemma dbg_step_hist : forall v, i_hist (fst (dbg_step c v)) = i_hist v \/ i_hist (fst (dbg_step c v)) = snap v :: i_hist v.
Proof.
  intros v. unfold Session.dbg_step.
  destruct (i_tce v) as [t|].
  - destruct (tce_iterate tap_tweak_ok sha256 t) as [t' st]. destruct st; left; reflexivity.
  - destruct (i_pc v) as [|b r] eqn:Epc.
    + repeat match goal with
             | |- context [if ?q then _ else _] => destruct q
             | |- context [match ?q with [] => _ | _ :: _ => _ end] => destruct q
             end; left; reflexivity.
    + destruct (step_script low_s c (i_e v) (b :: r) false) as [[e1 pc1] st].
      destruct st; [right|left|left|left]; reflexivity.
Qed.

Theorem dbg_step_keeps_ssafe : forall v, ssafe v -> ssafe (fst (dbg_step c v)).
Proof.
  intros v [Hs Hh]. split; [apply dbg_step_keeps_safe; exact Hs|].
  destruct (dbg_step_hist v) as [E|E]; rewrite E; [exact Hh|]. constructor; [apply snap_hsafe; exact Hs|exact Hh].
Qed.

Theorem dbg_rewind_keeps_ssafe : forall v v', ssafe v -> dbg_rewind v = Some v' -> ssafe v'.
Proof.
  intros v v' [Hs Hh] H. unfold dbg_rewind in H.
  destruct (at_start v); [discriminate|].
  destruct (i_done v).
  - inversion H; subst v'. split; [|exact Hh]. destruct Hs as [Ha Hb]. split; [exact Ha|exact Hb].
  - destruct (i_hist v) as [|h r] eqn:Eh; [discriminate|]. inversion H; subst v'.
    inversion Hh as [|h0 r0 Hh1 Hr]; subst. destruct Hh1 as [Ha Hb].
    split; [split; [exact Ha|exact Hb]|exact Hr].
Qed.

(* exec: the local script runs through the same step function *)
Lemma eval_loop_safe : forall fuel e it, safe c e ->
  (forall x, snd (eval_loop fuel c e it) <> SCrash x) /\ safe c (fst (eval_loop fuel c e it)).
Proof.
  induction fuel as [|f IH]; intros e it Hs; cbn [Session.eval_loop].
  - split; [intros x; cbn; discriminate|exact Hs].
  - destruct it as [|b r]; [split; [intros x; cbn; discriminate|exact Hs]|].
    pose proof (step_script_no_crash low_s c e (b :: r) true Hs) as Hn.
    pose proof (step_script_keeps_safe low_s c e (b :: r) true Hs) as Hk.
    destruct (step_script low_s c e (b :: r) true) as [[e1 it1] st]. cbn [fst snd] in Hn, Hk.
    destruct st.
    + apply IH. exact Hk.
    + split; [intros x; cbn; discriminate|exact Hk].
    + split; [intros x; cbn; discriminate|exact Hk].
    + split; [intros x; cbn [snd]; apply Hn|exact Hk].
Qed.

Theorem inst_eval_safe : forall v s, ssafe v -> (forall x, snd (inst_eval c v s) <> SCrash x) /\ ssafe (fst (inst_eval c v s)).
Proof.
  intros v s [Hs Hh]. unfold Session.inst_eval.
  destruct (eval_loop_safe (S (length s)) (i_e v) s Hs) as [Hn Hk].
  destruct (eval_loop (S (length s)) c (i_e v) s) as [e1 st]. cbn [fst snd] in *.
  split; [exact Hn|]. split; [exact Hk|exact Hh].
Qed.

(* the debugger's commands that touch the environment *)
Inductive cmd := CStep | CRewind | CExec (local_script : bytes).
(* one command: the next state and whether the command ended in a crash outcome *)
Definition run_cmd (v : ienv) (cm : cmd) : ienv * bool :=
  match cm with
  | CStep => match inst_step c v with (v1, StepCrash _) => (v1, true) | (v1, _) => (v1, false) end
  | CRewind => match dbg_rewind v with Some v1 => (v1, false) | None => (v, false) end
  | CExec s => match inst_eval c v s with (v1, SCrash _) => (v1, true) | (v1, _) => (v1, false) end
  end.
Fixpoint run_cmds (v : ienv) (cms : list cmd) : ienv * bool :=
  match cms with
  | [] => (v, false)
  | cm :: r => let '(v1, crashed) := run_cmd v cm in if crashed then (v1, true) else run_cmds v1 r
  end.

Lemma run_cmd_safe : forall v cm, ssafe v -> snd (run_cmd v cm) = false /\ ssafe (fst (run_cmd v cm)).
Proof.
  intros v cm Hs. destruct cm as [| |s]; cbn [run_cmd].
  - unfold Session.inst_step. destruct (i_done v); [split; [reflexivity|exact Hs]|].
    pose proof (dbg_step_no_crash low_s tap_tweak_ok sha256 c v (proj1 Hs)) as Hn.
    pose proof (dbg_step_keeps_ssafe v Hs) as Hk.
    destruct (dbg_step c v) as [v1 st]. cbn [fst snd] in *.
    destruct st; cbn [fst snd]; try (split; [reflexivity|exact Hk]). exfalso. eapply Hn. reflexivity.
  - destruct (dbg_rewind v) as [v1|] eqn:E; cbn [fst snd]; split; try reflexivity; [eapply dbg_rewind_keeps_ssafe; eassumption|exact Hs].
  - destruct (inst_eval_safe v s Hs) as [Hn Hk].
    destruct (inst_eval c v s) as [v1 st]. cbn [fst snd] in *.
    destruct st; cbn [fst snd]; try (split; [reflexivity|exact Hk]). exfalso. eapply Hn. reflexivity.
Qed.

(* ANY sequence of step / rewind / exec commands from a safe session: no command ends in a crash outcome, and the session stays safe *)
Theorem commands_never_crash : forall cms v, ssafe v -> snd (run_cmds v cms) = false /\ ssafe (fst (run_cmds v cms)).
Proof.
  induction cms as [|cm r IH]; intros v Hs; cbn [run_cmds]; [split; [reflexivity|exact Hs]|].
  destruct (run_cmd_safe v cm Hs) as [Hc Hk]. destruct (run_cmd v cm) as [v1 crashed]. cbn [fst snd] in *. subst crashed.
  apply IH. exact Hk.
Qed.
End CommandSafety.
