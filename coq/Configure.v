(* Model of Instance::configure_tx_txin and Instance::setup_environment for a --tx/--txin session
   (instance.cpp:187-213, 302-589): which scripts, initial stack, script version and execution data the debugger
   sets up for the selected input, and with which data the signature checker is built. *)
From BV Require Import Base ScriptNum Script Interp Session Tx TxCli Sighash.
From BV.Gen Require Import Consts Sites.
Local Open Scope Z_scope.

Section Configure.
Variable sha256 : bytes -> bytes.
Variable ripemd160 : bytes -> bytes.
Definition hash160_ (b : bytes) : bytes := ripemd160 (sha256 b).

Inductive cfg_res (A : Type) := CfgOk (a : A) | CfgRefused (* diagnostic, return false *) | CfgCrash.
Arguments CfgOk {A} _. Arguments CfgRefused {A}. Arguments CfgCrash {A}.

Record session_setup := {
  ss_script : bytes;             (* instance.script: the first script executed *)
  ss_successor : bytes;          (* successor_script (legacy: the scriptPubKey) *)
  ss_stack : list bytes;         (* initial stack, TOP FIRST *)
  ss_sigver : Z;
  ss_ed : execdata;
  ss_tce : option tce;
  ss_preamble : bool;
  ss_amount : Z
}.

(* serialized size of a witness stack (GetSerializeSize of vector<vector<uchar>>) *)
Definition witness_size (w : list bytes) : Z :=
  zlen (write_compact_size (Z.of_nat (length w))) + fold_left (fun acc it => acc + zlen (write_compact_size (zlen it)) + zlen it) w 0.

Definition annex_hash (a : bytes) : bytes := sha256 (write_compact_size (zlen a) ++ a).

(* segwit: find the witness program ("validation" script): the scriptPubKey itself, or the push in the scriptSig
   whose HASH160 the scriptPubKey commits to *)
Definition find_validation (scriptSig spk : bytes) : cfg_res bytes :=
  match scriptSig with
  | [] => CfgOk spk
  | _ =>
    match get_op scriptSig with
    | (None, _) => CfgRefused
    | (Some (_, pushval), _) =>
      match pushval with
      | [] => CfgRefused
      | _ =>
        if negb (bytes_eqb scriptSig (push_data pushval)) then CfgRefused        (* BIP141: exactly one push of the program *)
        else if negb (is_p2sh_script spk) then CfgRefused
        else
        match get_op spk with
        | (None, _) => CfgRefused
        | (Some (opc, _), rest) =>
          if negb (opc =? OP_HASH160) then CfgRefused
          else match get_op rest with
               | (None, _) => CfgRefused
               | (Some (_, h), _) =>
                   if negb (zlen h =? 20) then CfgRefused
                   else if bytes_eqb (hash160_ pushval) h then CfgOk pushval else CfgRefused
               end
        end
      end
    end
  end.

(* P2WPKH / P2WSH *)
Definition configure_v0 (wsh : bool) (program : bytes) (wstack : list bytes) (amount : Z) : cfg_res session_setup :=
  let wlast := last wstack [] in
  let h := if wsh then sha256 wlast else hash160_ wlast in
  if negb (bytes_eqb h program) then CfgRefused
  else if wsh then
    if negb (has_valid_ops wlast) then CfgRefused
    else CfgOk {| ss_script := wlast; ss_successor := []; ss_stack := rev (removelast wstack); ss_sigver := SV_WITNESS_V0;
                  ss_ed := init_execdata; ss_tce := None; ss_preamble := false; ss_amount := amount |}
  else
    let scr := [OP_DUP; OP_HASH160] ++ push_data program ++ [OP_EQUALVERIFY; OP_CHECKSIG] in
    CfgOk {| ss_script := scr; ss_successor := []; ss_stack := rev wstack; ss_sigver := SV_WITNESS_V0;
             ss_ed := init_execdata; ss_tce := None; ss_preamble := true; ss_amount := amount |}.

(* witness v1: taproot key path / tapscript *)
Definition has_annex (wstack : list bytes) : bool :=
  (2 <=? Z.of_nat (length wstack)) && (match last wstack [] with [] => false | b :: _ => b =? ANNEX_TAG end).

Definition configure_v1 (program : bytes) (wstack : list bytes) (amount : Z) : cfg_res session_setup :=
  let wlast := last wstack [] in
  if negb (zlen program =? WITNESS_V1_TAPROOT_SIZE) then CfgRefused
  else
    let annex := has_annex wstack in
    let stack := if annex then removelast wstack else wstack in
    let ed0 := {| ed_codesep_pos := ed_codesep_pos init_execdata; ed_weight_left := 0; ed_weight_init := false;
                  ed_tapleaf := []; ed_tapleaf_init := false;
                  ed_annex_present := annex; ed_annex_hash := if annex then annex_hash wlast else []; ed_annex_init := true |} in
    match stack with
    | [_] =>
        let scr := push_data program ++ [OP_CHECKSIG] in
        CfgOk {| ss_script := scr; ss_successor := []; ss_stack := rev stack; ss_sigver := SV_TAPROOT;
                 ss_ed := ed0; ss_tce := None; ss_preamble := true; ss_amount := amount |}
    | _ =>
        let control := last stack [] in
        let stack1 := removelast stack in
        let script := last stack1 [] in
        let stack2 := removelast stack1 in
        let n := zlen control in
        if cmp_eval site_control_min n TAPROOT_CONTROL_BASE_SIZE || cmp_eval site_control_max n TAPROOT_CONTROL_MAX_SIZE || negb ((n - TAPROOT_CONTROL_BASE_SIZE) mod TAPROOT_CONTROL_NODE_SIZE =? 0)
        then CfgRefused
        else if negb (Z.land (hd 0 control) TAPROOT_LEAF_MASK =? TAPROOT_LEAF_TAPSCRIPT) then CfgRefused
        else if negb (has_valid_ops script) then CfgRefused
        else
          let t := tce_new sha256 control program script in
          let ed1 := {| ed_codesep_pos := ed_codesep_pos ed0; ed_weight_left := witness_size wstack + VALIDATION_WEIGHT_OFFSET;
                        ed_weight_init := true; ed_tapleaf := t_leaf t; ed_tapleaf_init := true;
                        ed_annex_present := ed_annex_present ed0; ed_annex_hash := ed_annex_hash ed0; ed_annex_init := true |} in
          CfgOk {| ss_script := script; ss_successor := []; ss_stack := rev stack2; ss_sigver := SV_TAPSCRIPT;
                   ss_ed := ed1; ss_tce := Some t; ss_preamble := false; ss_amount := amount |}
    end.

(* the version byte and program of a 22/34-byte witness program *)
Definition split_program (validation : bytes) : cfg_res (Z * bytes) :=
  if negb ((zlen validation =? 22) || (zlen validation =? 34)) then CfgRefused
  else
    let wsh := zlen validation =? 34 in
    match get_op validation with
    | (None, _) => CfgRefused
    | (Some (verop, _), rest) =>
      if negb ((verop =? OP_0) || (verop =? OP_1)) then CfgRefused
      else match get_op rest with
      | (None, _) => CfgRefused
      | (Some (_, program), _) =>
        if negb (zlen program =? (if wsh then 32 else 20)) then CfgRefused else CfgOk (verop, program)
      end
    end.

Definition default_in := {| ti_prevout := {| op_hash := []; op_n := 0 |}; ti_scriptSig := []; ti_sequence := 0; ti_witness := [] |}.

Definition configure (spend funding : tx) (txin_index vout_index : Z) : cfg_res session_setup :=
  let vin := nth (Z.to_nat txin_index) (tx_vin spend) default_in in
  match nth_error (tx_vout funding) (Z.to_nat vout_index) with
  | None => CfgCrash                                   (* excluded by parse_input_transaction's bound check *)
  | Some prev =>
    let wstack := ti_witness vin in                     (* bottom first, as serialised *)
    let scriptSig := ti_scriptSig vin in
    let spk := to_spk prev in
    let amount := to_value prev in
    match wstack with
    | [] =>
        CfgOk {| ss_script := scriptSig; ss_successor := spk; ss_stack := []; ss_sigver := SV_BASE; ss_ed := init_execdata;
                 ss_tce := None; ss_preamble := false; ss_amount := amount |}
    | _ =>
      match find_validation scriptSig spk with
      | CfgRefused => CfgRefused | CfgCrash => CfgCrash
      | CfgOk validation =>
        match split_program validation with
        | CfgRefused => CfgRefused | CfgCrash => CfgCrash
        | CfgOk (verop, program) =>
            if verop =? OP_0 then configure_v0 (zlen validation =? 34) program wstack amount
            else configure_v1 program wstack amount
        end
      end
    end
  end.

(* Instance::setup_environment for the configured session: the transaction data cache is initialised only when the
   spending transaction has exactly one input (a single spent output is known) *)
Definition setup_txdata (spend funding : tx) (vout_index : Z) (preamble : bool) : txdata :=
  match nth_error (tx_vout funding) (Z.to_nat vout_index) with
  | Some prev => if (length (tx_vin spend) =? 1)%nat then txdata_init sha256 spend [prev] preamble else empty_txdata
  | None => empty_txdata
  end.

(* the push-only rule checked when the session is set up *)
Fixpoint is_push_only_fuel (fuel : nat) (pc : bytes) : bool :=
  match fuel with
  | O => true
  | S f => match pc with
           | [] => true
           | _ => match get_op pc with
                  | (None, _) => false
                  | (Some (opcode, _), pc') => if OP_16 <? opcode then false else is_push_only_fuel f pc'
                  end
           end
  end.
Definition is_push_only (s : bytes) : bool := is_push_only_fuel (S (length s)) s.

(* BIP141 / BIP342 limits on the initial witness stack, checked when the session is set up: Some error, or None *)
Definition witness_limits_violation (sigver : Z) (stack : list bytes) : option Z :=
  if (sigver =? SV_WITNESS_V0) || (sigver =? SV_TAPSCRIPT) then
    if existsb (fun it => MAX_SCRIPT_ELEMENT_SIZE <? zlen it) stack then Some SCRIPT_ERR_PUSH_SIZE
    else if (sigver =? SV_TAPSCRIPT) && (MAX_STACK_SIZE <? Z.of_nat (length stack)) then Some SCRIPT_ERR_STACK_SIZE
    else None
  else None.

Definition pushonly_violation (flags : Z) (script succ : bytes) : bool :=
  (match succ with [] => false | _ => true end) && negb (is_push_only script)
  && (has_flag flags SCRIPT_VERIFY_SIGPUSHONLY || (has_flag flags SCRIPT_VERIFY_P2SH && is_p2sh_script succ)).
End Configure.
Arguments CfgOk {A} _. Arguments CfgRefused {A}. Arguments CfgCrash {A}.
