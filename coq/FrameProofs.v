(* Frame facts about one interpreter step: it never changes env.script; a successful step leaves *serror alone;
   the iterator strictly advances. Used by the rewind / exec / continue theorems. *)
From Coq Require Import ZifyBool.
From BV Require Import Base ScriptNum Script Interp.
From BV.Gen Require Import Consts Sites.
Local Open Scope Z_scope.

Definition fr (e e' : see) : Prop := e_script e' = e_script e /\ e_err e' = e_err e.
Definition frs (e e' : see) : Prop := e_script e' = e_script e.

Lemma fr_refl e : fr e e. Proof. split; reflexivity. Qed.
Lemma fr_trans a b c : fr a b -> fr b c -> fr a c. Proof. unfold fr. intros [] []. split; congruence. Qed.
Lemma frs_refl e : frs e e. Proof. reflexivity. Qed.
Lemma frs_trans a b c : frs a b -> frs b c -> frs a c. Proof. unfold frs. congruence. Qed.
Lemma fr_frs a b : fr a b -> frs a b. Proof. intros []. assumption. Qed.

(* a result is "framed": whatever the status, the script is untouched; on SOk the error slot too *)
Definition framed (e : see) (r : see * status) : Prop :=
  frs e (fst r) /\ (snd r = SOk -> fr e (fst r)).

Lemma framed_ok e e' : fr e e' -> framed e (ok e').
Proof. intros H. split. apply fr_frs; exact H. intros _. exact H. Qed.
Lemma framed_fail e e' err : frs e e' -> framed e (fail e' err).
Proof. intros H. split. exact H. cbn. discriminate. Qed.
Lemma framed_exn e x : framed e (e, SExn x). Proof. split. reflexivity. cbn. discriminate. Qed.
Lemma framed_crash e x : framed e (e, SCrash x). Proof. split. reflexivity. cbn. discriminate. Qed.

#[global] Hint Resolve fr_refl frs_refl framed_exn framed_crash : frame.

Lemma fr_set_stack e s : fr e (set_stack e s). Proof. split; reflexivity. Qed.
Lemma fr_set_alt e s : fr e (set_alt e s). Proof. split; reflexivity. Qed.
Lemma fr_set_cond e s : fr e (set_cond e s). Proof. split; reflexivity. Qed.
Lemma fr_set_ops e s : fr e (set_ops e s). Proof. split; reflexivity. Qed.
Lemma fr_set_cb e s : fr e (set_cb e s). Proof. split; reflexivity. Qed.
Lemma fr_set_ed e s : fr e (set_ed e s). Proof. split; reflexivity. Qed.
Lemma fr_pushs e v : fr e (pushs e v). Proof. split; reflexivity. Qed.
Lemma fr_popn e n : fr e (popn e n). Proof. split; reflexivity. Qed.
Lemma frs_set_err e x : frs e (set_err e x). Proof. reflexivity. Qed.

(* solve "framed e (expr)" goals where expr is built from the setters *)
Ltac fr_step :=
  match goal with
  | |- fr ?e ?e => apply fr_refl
  | |- fr ?e (set_stack ?x _) => apply (fr_trans e x); [|apply fr_set_stack]
  | |- fr ?e (set_alt ?x _) => apply (fr_trans e x); [|apply fr_set_alt]
  | |- fr ?e (set_cond ?x _) => apply (fr_trans e x); [|apply fr_set_cond]
  | |- fr ?e (set_ops ?x _) => apply (fr_trans e x); [|apply fr_set_ops]
  | |- fr ?e (set_cb ?x _) => apply (fr_trans e x); [|apply fr_set_cb]
  | |- fr ?e (set_ed ?x _) => apply (fr_trans e x); [|apply fr_set_ed]
  | |- fr ?e (pushs ?x _) => apply (fr_trans e x); [|apply fr_pushs]
  | |- fr ?e (popn ?x _) => apply (fr_trans e x); [|apply fr_popn]
  | |- fr _ (if ?b then _ else _) => destruct b
  | |- fr _ (match ?x with Some _ => _ | None => _ end) => destruct x
  | |- frs _ (if ?b then _ else _) => destruct b
  | |- frs ?e ?e => reflexivity
  | |- frs ?e (set_err ?x _) => apply (frs_trans e x); [|apply frs_set_err]
  | |- frs _ _ => apply fr_frs
  | H : fr ?a ?b |- fr ?a ?b => exact H
  end.
Ltac fr_solve := repeat fr_step; try assumption.

Ltac framed_leaf :=
  match goal with
  | |- framed _ (ok _) => apply framed_ok; fr_solve
  | |- framed _ (fail _ _) => apply framed_fail; fr_solve
  | |- framed _ (_, SExn _) => first [apply framed_exn | split; [cbn [fst]; fr_solve | cbn; discriminate]]
  | |- framed _ (_, SCrash _) => first [apply framed_crash | split; [cbn [fst]; fr_solve | cbn; discriminate]]
  | |- framed _ (_, SErr) => split; [cbn [fst]; fr_solve | cbn; discriminate]
  | |- framed _ (_, SOk) => split; [cbn [fst]; fr_solve | intros _; cbn [fst]; fr_solve]
  end.

(* split every if / match in a goal [framed e (...)] down to leaves *)
Ltac framed_split :=
  repeat match goal with
         | |- framed _ (if ?b then _ else _) => destruct b
         | |- framed _ (match ?x with _ => _ end) => destruct x
         | |- framed _ (let '(_, _) := ?x in _) => destruct x
         end.

Section Frames.
Variable low_s : bytes -> bool.
Variable c : cfg.

Lemma framed_with_num v n e k : (forall z, framed e (k z)) -> framed e (with_num c v n e k).
Proof. intros H. unfold with_num. destruct (sn_ctor v (req_minimal c) n); auto with frame. Qed.

Lemma framed_need e n err k : framed e k -> framed e (need e n err k).
Proof. intros H. unfold need. destruct (ssize e <? n). apply framed_fail; fr_solve. exact H. Qed.

Lemma framed_step_extended e opcode : framed e (step_extended c e opcode).
Proof.
  unfold step_extended.
  repeat match goal with
         | |- framed _ (if ?b then _ else _) => destruct b
         | |- framed _ (with_num _ _ _ _ _) => apply framed_with_num; intros
         end; framed_leaf.
Qed.

(* signature checks *)
Ltac framed_auto :=
  cbv zeta;
  repeat match goal with
         | |- context [if ?b then _ else _] => destruct b
         | |- context [let '(_, _) := ?x in _] => destruct x
         | |- context [match ?x with Some _ => _ | None => _ end] => destruct x
         end; cbn [fst snd]; framed_leaf.

Lemma eval_checksig_pre_framed e sig key :
  let r := eval_checksig_pre low_s c e sig key in framed e (fst (fst r), snd (fst r)).
Proof. unfold eval_checksig_pre, script_code. framed_auto. Qed.

Lemma eval_checksig_tapscript_framed e sig key :
  let r := eval_checksig_tapscript c e sig key in framed e (fst (fst r), snd (fst r)).
Proof. unfold eval_checksig_tapscript. framed_auto. Qed.

Lemma eval_checksig_framed e sig key :
  let r := eval_checksig low_s c e sig key in framed e (fst (fst r), snd (fst r)).
Proof.
  cbv zeta. unfold eval_checksig.
  destruct (pv_has_key c key && pv_match c sig key); cbn [fst snd]. framed_leaf.
  destruct (c_sigver c =? SV_TAPROOT).
  - destruct (k_schnorr (c_chk c) sig key SV_TAPROOT (e_ed e)) as [okv err]. destruct okv; cbn [fst snd]; framed_leaf.
  - destruct ((c_sigver c =? SV_BASE) || (c_sigver c =? SV_WITNESS_V0)).
    apply eval_checksig_pre_framed. apply eval_checksig_tapscript_framed.
Qed.

Lemma framed_weaken e e1 r : fr e e1 -> framed e1 r -> framed e r.
Proof. intros Hf [H1 H2]. split. apply (frs_trans e e1); [apply fr_frs; exact Hf|exact H1]. intros Hs. apply (fr_trans e e1); auto. Qed.

Lemma op_checksig_framed e opcode : framed e (op_checksig low_s c e opcode).
Proof.
  unfold op_checksig. destruct (ssize e <? 2). framed_leaf.
  pose proof (eval_checksig_framed e (stop e 2) (stop e 1)) as H. cbv zeta in H.
  destruct (eval_checksig low_s c e (stop e 2) (stop e 1)) as [[e1 st] fS]. cbn [fst snd] in H.
  destruct st; try exact H.
  destruct H as [_ H]. specialize (H eq_refl).
  destruct (opcode =? OP_CHECKSIGVERIFY). destruct fS. apply framed_ok. fr_solve. apply framed_fail. fr_solve. apply framed_ok. fr_solve.
Qed.

Lemma op_checksigadd_framed e : framed e (op_checksigadd low_s c e).
Proof.
  unfold op_checksigadd. destruct ((c_sigver c =? SV_BASE) || (c_sigver c =? SV_WITNESS_V0)). framed_leaf.
  destruct (ssize e <? 3). framed_leaf.
  destruct (num_at c e 2 4); try framed_leaf.
  pose proof (eval_checksig_framed e (stop e 3) (stop e 1)) as H. cbv zeta in H.
  destruct (eval_checksig low_s c e (stop e 3) (stop e 1)) as [[e1 st] fS]. cbn [fst snd] in H.
  destruct st; try exact H.
  all: destruct H as [_ H]; specialize (H eq_refl); apply framed_ok; fr_solve.
Qed.

Lemma multisig_loop_framed fuel e code isig ikey nS nK :
  let r := multisig_loop low_s fuel c e code isig ikey nS nK in framed e (fst (fst r), snd (fst r)).
Proof.
  revert isig ikey nS nK. induction fuel as [|f IH]; intros isig ikey nS nK; cbv zeta; cbn [multisig_loop]. cbn [fst snd]; framed_leaf.
  destruct (0 <? nS); [|cbn [fst snd]; framed_leaf].
  assert (Hstep: forall fOk : bool,
    let r := (let isig' := if fOk then isig + 1 else isig in
              let nSigs' := if fOk then nS - 1 else nS in
              let ikey' := ikey + 1 in let nKeys' := nK - 1 in
              if nKeys' <? nSigs' then (e, SOk, false) else multisig_loop low_s f c e code isig' ikey' nSigs' nKeys') in
    framed e (fst (fst r), snd (fst r))).
  { intros fOk. cbv zeta. destruct (nK - 1 <? (if fOk then nS - 1 else nS)). cbn [fst snd]; framed_leaf. apply IH. }
  destruct (pv_has_key c (stop e (Z.to_nat ikey))). apply Hstep.
  destruct (check_sig_encoding low_s (c_flags c) (stop e (Z.to_nat isig))); [cbn [fst snd]; framed_leaf|].
  destruct (check_pubkey_encoding (c_flags c) (c_sigver c) (stop e (Z.to_nat ikey))); [cbn [fst snd]; framed_leaf|].
  apply Hstep.
Qed.

Lemma multisig_cleanup_framed n e fS ikey2 : framed e (multisig_cleanup n c e fS ikey2).
Proof.
  revert e ikey2. induction n as [|m IH]; intros; cbn [multisig_cleanup]. framed_leaf.
  match goal with |- framed _ (if ?b then _ else _) => destruct b end. framed_leaf.
  eapply framed_weaken. 2: apply IH. fr_solve.
Qed.

Lemma op_checkmultisig_framed e opcode : framed e (op_checkmultisig low_s c e opcode).
Proof.
  unfold op_checkmultisig, multisig_finish.
  destruct (c_sigver c =? SV_TAPSCRIPT). framed_leaf.
  destruct (ssize e <? 1). framed_leaf.
  destruct (num_at c e 1 4) as [kraw|x|x]; try framed_leaf.
  match goal with |- framed _ (if ?b then _ else _) => destruct b end. framed_leaf.
  set (e0 := set_ops e (e_ops e + sn_getint kraw)).
  assert (H0: fr e e0) by (split; reflexivity).
  apply (framed_weaken e e0); [exact H0|].
  match goal with |- framed _ (if ?b then _ else _) => destruct b end. framed_leaf.
  match goal with |- framed _ (if ?b then _ else _) => destruct b end. framed_leaf.
  destruct (num_at c e0 (Z.to_nat (2 + sn_getint kraw)) 4) as [sraw|x|x]; try framed_leaf.
  match goal with |- framed _ (if ?b then _ else _) => destruct b end. framed_leaf.
  match goal with |- framed _ (if ?b then _ else _) => destruct b end. framed_leaf.
  unfold script_code. destruct (e_cb e0); [|framed_leaf].
  match goal with |- context [multisig_fad ?a ?k0 ?b0 ?s] => destruct (multisig_fad a k0 b0 s) as [code fadfail] end.
  destruct fadfail. framed_leaf.
  match goal with |- context [multisig_loop ?ls ?fu ?cc ?ee ?co ?a1 ?a2 ?a3 ?a4] =>
    pose proof (multisig_loop_framed fu ee co a1 a2 a3 a4) as HL; cbv zeta in HL;
    destruct (multisig_loop ls fu cc ee co a1 a2 a3 a4) as [[e1 st] fS] end.
  cbn [fst snd] in HL.
  destruct st; try exact HL.
  destruct HL as [_ HL]. specialize (HL eq_refl).
  match goal with |- context [multisig_cleanup ?n ?cc ?ee ?f ?k] =>
    pose proof (multisig_cleanup_framed n ee f k) as HC; destruct (multisig_cleanup n cc ee f k) as [e2 st2] end.
  apply (framed_weaken e0 e1); [exact HL|].
  destruct st2; try exact HC.
  destruct HC as [_ HC]. specialize (HC eq_refl). cbn [fst] in HC.
  apply (framed_weaken e1 e2); [exact HC|].
  destruct (ssize e2 <? 1). framed_leaf.
  match goal with |- framed _ (if ?b then _ else _) => destruct b end. framed_leaf.
  destruct (opcode =? OP_CHECKMULTISIGVERIFY). destruct fS; framed_leaf. framed_leaf.
Qed.

Lemma framed_exec_opcode e opcode fExec pc' : framed e (exec_opcode low_s c e opcode fExec pc').
Proof.
  unfold exec_opcode.
  repeat match goal with
         | |- framed _ (if ?b then _ else _) => destruct b
         | |- framed _ (need _ _ _ _) => apply framed_need
         | |- framed _ (with_num _ _ _ _ _) => apply framed_with_num; intros
         | |- framed _ (step_extended _ _ _) => apply framed_step_extended
         | |- framed _ (op_checksig _ _ _ _) => apply op_checksig_framed
         | |- framed _ (op_checksigadd _ _ _) => apply op_checksigadd_framed
         | |- framed _ (op_checkmultisig _ _ _ _) => apply op_checkmultisig_framed
         | |- framed _ (match num_at ?a ?b ?k ?m with _ => _ end) => destruct (num_at a b k m)
         | |- framed _ (match unary_num ?a ?b with _ => _ end) => destruct (unary_num a b)
         | |- framed _ (match binary_num ?a ?b ?k with _ => _ end) => destruct (binary_num a b k)
         | |- framed _ (match e_alt ?a with _ => _ end) => destruct (e_alt a)
         | |- framed _ (let _ := _ in _) => cbv zeta
         end; try framed_leaf.
Qed.

Theorem step_script_framed e pc local :
  let r := step_script low_s c e pc local in framed e (fst (fst r), snd r).
Proof.
  cbv zeta. unfold step_script.
  destruct (get_op pc) as [[[opcode push]|] pc']; cbn [fst snd]; [|framed_leaf].
  match goal with |- context [if ?b then _ else _] => destruct b end; cbn [fst snd]; [framed_leaf|].
  set (count := ((c_sigver c =? SV_BASE) || (c_sigver c =? SV_WITNESS_V0)) && cmp_eval (fst site_opcount_threshold) opcode (snd site_opcount_threshold)).
  set (e0 := if count then set_ops e (e_ops e + 1) else e).
  assert (H0: fr e e0). { subst e0. destruct count; [split; reflexivity|apply fr_refl]. }
  match goal with |- context [if ?b then _ else _] => destruct b end; cbn [fst snd].
  { split; [cbn [fst]; apply (frs_trans e e0); [apply fr_frs; exact H0|reflexivity]|cbn; discriminate]. }
  match goal with |- context [if ?b then _ else _] => destruct b end; cbn [fst snd].
  { split; [cbn [fst]; apply (frs_trans e e0); [apply fr_frs; exact H0|reflexivity]|cbn; discriminate]. }
  match goal with |- context [if ?b then _ else _] => destruct b end; cbn [fst snd].
  { split; [cbn [fst]; apply (frs_trans e e0); [apply fr_frs; exact H0|reflexivity]|cbn; discriminate]. }
  match goal with |- context [let '(_, _) := ?x in _] => assert (HX: framed e0 x); [|destruct x as [e1 st]] end.
  { repeat match goal with |- framed _ (if ?b then _ else _) => destruct b end; try framed_leaf. apply framed_exec_opcode. }
  destruct st; cbn [fst snd].
  - destruct HX as [_ HX]. specialize (HX eq_refl). cbn [fst] in HX.
    match goal with |- context [if ?b then _ else _] => destruct b end; cbn [fst snd].
    split; [cbn [fst]; apply (frs_trans e e0); [apply fr_frs; exact H0|apply (frs_trans e0 e1); [apply fr_frs; exact HX|reflexivity]]|cbn; discriminate].
    split; [cbn [fst]; apply fr_frs; apply (fr_trans e e0); assumption|intros _; cbn [fst]; apply (fr_trans e e0); assumption].
  - destruct HX as [HX _]. cbn [fst] in HX. split; [cbn [fst]; apply (frs_trans e e0); [apply fr_frs; exact H0|exact HX]|cbn; discriminate].
  - destruct HX as [HX _]. cbn [fst] in HX. split; [cbn [fst]; apply (frs_trans e e0); [apply fr_frs; exact H0|exact HX]|cbn; discriminate].
  - destruct HX as [HX _]. cbn [fst] in HX. split; [cbn [fst]; apply (frs_trans e e0); [apply fr_frs; exact H0|exact HX]|cbn; discriminate].
Qed.
End Frames.
