(* Expression language of the numeric opcode switches (script/interpreter.cpp); the expressions themselves are
   generated into Gen/NumOps.v. Comparisons and logical operators yield 0/1 as the C++ bool -> int64 conversion. *)
From BV Require Import Base.
Local Open Scope Z_scope.

Inductive nexpr :=
| NVar (n : nat) | NConst (z : Z)
| NAdd (a b : nexpr) | NSub (a b : nexpr) | NNeg (a : nexpr) | NNot (a : nexpr)
| NEq (a b : nexpr) | NNe (a b : nexpr) | NLt (a b : nexpr) | NGt (a b : nexpr) | NLe (a b : nexpr) | NGe (a b : nexpr)
| NAnd (a b : nexpr) | NOr (a b : nexpr) | NCond (c a b : nexpr).

Definition zb (b : bool) : Z := if b then 1 else 0.

Fixpoint neval (env : list Z) (e : nexpr) : Z :=
  match e with
  | NVar n => nth n env 0
  | NConst z => z
  | NAdd a b => neval env a + neval env b
  | NSub a b => neval env a - neval env b
  | NNeg a => - neval env a
  | NNot a => zb (neval env a =? 0)
  | NEq a b => zb (neval env a =? neval env b)
  | NNe a b => zb (negb (neval env a =? neval env b))
  | NLt a b => zb (neval env a <? neval env b)
  | NGt a b => zb (neval env b <? neval env a)
  | NLe a b => zb (neval env a <=? neval env b)
  | NGe a b => zb (neval env b <=? neval env a)
  | NAnd a b => zb (negb (neval env a =? 0) && negb (neval env b =? 0))
  | NOr a b => zb (negb (neval env a =? 0) || negb (neval env b =? 0))
  | NCond c a b => if neval env c =? 0 then neval env b else neval env a
  end.

Fixpoint nassoc (tbl : list (Z * nexpr)) (k : Z) : option nexpr :=
  match tbl with [] => None | (k', e) :: r => if k' =? k then Some e else nassoc r k end.
