(* Verification flags only ever restrict, for whole evaluations and whole script sessions (C09): lifting FlagStepProofs.step_script_mono
   through the evaluation loop and through the whole-session theorem of VerifyProofs. *)
From Coq Require Import Lia.
From BV Require Import Base ScriptNum Script Interp Session FlagProofs FlagStepProofs VerifySpec VerifyProofs.
From BV.Gen Require Import Consts Sites.
Local Open Scope Z_scope.

Section FlagEval.
Variable low_s : bytes -> bool.
Variable c : cfg.
Variables A B : Z.
Hypothesis Hsub : flags_sub A B.

(* EvalScript: an evaluation that succeeds under B succeeds with the same final environment under every subset A of B *)
Lemma eval_loop_ref_mono : forall f e pc e1,
  eval_loop_ref low_s (with_flags c B) f e pc = (e1, SOk) -> eval_loop_ref low_s (with_flags c A) f e pc = (e1, SOk).
Proof.
  induction f as [|f IH]; intros e pc e1 H; cbn [eval_loop_ref] in *; [discriminate|].
  destruct pc as [|b pc']; [exact H|].
  destruct (step_script low_s (with_flags c B) e (b :: pc') false) as [[eB pcB] stB] eqn:EB.
  destruct stB; try discriminate.
  rewrite (step_script_mono low_s c A B Hsub e (b :: pc') false eB pcB EB). apply IH. exact H.
Qed.

Lemma eval_ref_mono : forall e pc e1,
  eval_ref low_s (with_flags c B) e pc = (e1, SOk) -> eval_ref low_s (with_flags c A) e pc = (e1, SOk).
Proof. intros e pc e1. unfold eval_ref. apply eval_loop_ref_mono. Qed.

Lemma p2sh_shape_mono script : p2sh_shape B script = false -> p2sh_shape A script = false.
Proof.
  unfold p2sh_shape. intros H. apply Bool.andb_false_iff in H. apply Bool.andb_false_iff. destruct H as [H|H]; [left|right; exact H].
  eapply has_flag_false_sub; eassumption.
Qed.
End FlagEval.

(* the whole script-only session *)
Section FlagSession.
Variable low_s : bytes -> bool.
Variable tap_tweak_ok : bytes -> bytes -> bytes -> bool -> bool.
Variable sha256 : bytes -> bytes.
Variable c : cfg.
Variables A B : Z.
Hypothesis Hsub : flags_sub A B.
Notation cA := (with_flags c A).
Notation cB := (with_flags c B).

Lemma session_mono_gen : forall vB0 vA0 f,
  i_tce vB0 = None -> i_p2sh vB0 = false -> i_done vB0 = false -> i_pc vB0 = e_script (i_e vB0) -> i_succ vB0 = [] ->
  i_tce vA0 = None -> i_p2sh vA0 = false -> i_done vA0 = false -> i_pc vA0 = e_script (i_e vA0) -> i_succ vA0 = [] ->
  i_e vA0 = i_e vB0 -> (length (e_script (i_e vB0)) + 6 <= f)%nat ->
  forall vB, Session.dbg_continue low_s tap_tweak_ok sha256 f cB vB0 = (vB, SOk) ->
  exists vA, Session.dbg_continue low_s tap_tweak_ok sha256 f cA vA0 = (vA, SOk) /\ i_e vA = i_e vB /\ i_done vA = true.
Proof.
  intros vB0 vA0 f HtB HpB HdB HpcB HsB HtA HpA HdA HpcA HsA He Hf vB HB.
  assert (EnB: enough low_s cB f vB0) by (unfold enough; rewrite HsB; lia).
  assert (EnA: enough low_s cA f vA0) by (unfold enough; rewrite HsA, He; lia).
  pose proof (session_is_validation low_s tap_tweak_ok sha256 cB vB0 f HtB HpB HdB HpcB EnB) as SB.
  pose proof (session_is_validation low_s tap_tweak_ok sha256 cA vA0 f HtA HpA HdA HpcA EnA) as SA.
  unfold verify_ref in SB, SA. rewrite HsB in SB. rewrite HsA, He in SA. rewrite HB in SB.
  generalize dependent (Session.dbg_continue low_s tap_tweak_ok sha256 f cA vA0). intros rA SA.
  destruct (eval_ref low_s cB (i_e vB0) (e_script (i_e vB0))) as [e1 st1] eqn:EB.
  destruct st1.
  - rewrite (eval_ref_mono low_s c A B Hsub (i_e vB0) (e_script (i_e vB0)) e1 EB) in SA.
    unfold finish in SB, SA. destruct (negb (cs_empty (e_cond e1))).
    + cbn [ended] in SB. destruct SB as (v' & Hv & _). discriminate.
    + cbn [ended] in SB, SA. destruct SB as (v' & Hv & Hev & _). destruct SA as (vA & HvA & HeA & HdA').
      exists vA. split; [exact HvA|]. split; [|exact HdA']. inversion Hv; subst v'. rewrite HeA, Hev. reflexivity.
  - cbn [failed_verdict ended] in SB. destruct SB as (v' & Hv & _). discriminate.
  - cbn [failed_verdict ended] in SB. destruct SB as (v' & Hv & _). discriminate.
  - cbn [failed_verdict ended] in SB. destruct SB as (v' & Hv & _). discriminate.
Qed.

(* a script-only session (btcdeb '[script]' stack...): if it runs to success under the flag set B, it runs to success with the same final
   environment under every subset A of B *)
Theorem script_session_mono : forall script stack ed f,
  script <> [] -> i_p2sh (setup_env cB script stack [] ed None) = false -> (length script + 6 <= f)%nat ->
  forall vB, Session.dbg_continue low_s tap_tweak_ok sha256 f cB (setup_env cB script stack [] ed None) = (vB, SOk) ->
  exists vA, Session.dbg_continue low_s tap_tweak_ok sha256 f cA (setup_env cA script stack [] ed None) = (vA, SOk) /\ i_e vA = i_e vB /\ i_done vA = true.
Proof.
  intros script stack ed f Hne HpB Hf vB HB.
  assert (Hd: forall c', i_done (setup_env c' script stack [] ed None) = false) by (intros c'; cbn; destruct script; [contradiction|reflexivity]).
  assert (HpA: i_p2sh (setup_env cA script stack [] ed None) = false).
  { revert HpB. cbn [setup_env i_p2sh]. change (c_sigver cA) with (c_sigver c). change (c_sigver cB) with (c_sigver c).
    change (c_flags cA) with A. change (c_flags cB) with B.
    destruct (negb (script_too_big (c_sigver c) script) && (c_sigver c =? SV_BASE)); cbn [andb]; [|reflexivity].
    apply p2sh_shape_mono. exact Hsub. }
  eapply session_mono_gen with (vB0 := setup_env cB script stack [] ed None); try reflexivity; try assumption; try apply Hd.
Qed.
End FlagSession.
