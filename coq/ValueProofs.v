(* C07 proofs: what the compiler front end emits decodes back to the intended operation, is a minimal push,
   and places exactly the intended bytes on the stack. *)
From Coq Require Import ZifyBool.
From BV Require Import Base BaseProofs ScriptNum ScriptNumProofs Script Value SessionProofs.
From BV.Gen Require Import Consts.
Local Open Scope Z_scope.
Ltac Zify.zify_post_hook ::= Z.div_mod_to_equations.

(* the value an operation pushes when executed *)
Definition pushed_value (op : Z * bytes) : option bytes :=
  let '(opcode, data) := op in
  if opcode <=? OP_PUSHDATA4 then Some data
  else if (opcode =? OP_1NEGATE) || ((OP_1 <=? opcode) && (opcode <=? OP_16)) then Some (sn_serialize (opcode - (OP_1 - 1)))
  else None.

(* the opcode CScript::operator<< chooses for a data push of n bytes *)
Definition push_opcode_for (n : Z) : Z :=
  if n <? 76 then n else if n <=? 255 then OP_PUSHDATA1 else if n <=? 65535 then OP_PUSHDATA2 else OP_PUSHDATA4.

Lemma firstn_app_exact {A} (a b : list A) : firstn (length a) (a ++ b) = a.
Proof. induction a; cbn; congruence. Qed.
Lemma skipn_app_exact {A} (a b : list A) : skipn (length a) (a ++ b) = b.
Proof. induction a; cbn; congruence. Qed.

Lemma le_value_fixed n v : 0 <= v < 256 ^ Z.of_nat n -> le_value (le_fixed n v) = v.
Proof. apply le_fixed_value. Qed.

Theorem get_op_push_data d rest : zlen d < 2 ^ 32 ->
  get_op (push_data d ++ rest) = (Some (push_opcode_for (zlen d), d), rest).
Proof.
  intros Hlen. pose proof (Nat2Z.is_nonneg (length d)) as Hn. fold (zlen d) in Hn.
  unfold push_data, push_opcode_for. change OP_PUSHDATA1 with 76. change OP_PUSHDATA2 with 77. change OP_PUSHDATA4 with 78.
  destruct (Z.ltb_spec (zlen d) 76).
  - cbn [app get_op]. change OP_PUSHDATA4 with 78. change OP_PUSHDATA1 with 76.
    replace (zlen d <=? 78) with true by lia. replace (zlen d <? 76) with true by lia.
    rewrite app_length. replace (Z.of_nat (length d + length rest) <? zlen d) with false by (unfold zlen; lia).
    unfold zlen. rewrite Nat2Z.id, firstn_app_exact, skipn_app_exact. reflexivity.
  - destruct (Z.leb_spec (zlen d) 255).
    + cbn [app get_op]. change OP_PUSHDATA4 with 78. change OP_PUSHDATA1 with 76. cbn [Z.leb Z.ltb Z.eqb Z.compare Pos.compare Pos.compare_cont Pos.eqb].
      cbn [length Nat.ltb Nat.leb firstn skipn le_value].
      replace (zlen d + 256 * 0) with (zlen d) by lia.
      rewrite app_length. replace (Z.of_nat (length d + length rest) <? zlen d) with false by (unfold zlen; lia).
      unfold zlen. rewrite Nat2Z.id, firstn_app_exact, skipn_app_exact. reflexivity.
    + destruct (Z.leb_spec (zlen d) 65535).
      * cbn [app get_op le_fixed]. change OP_PUSHDATA4 with 78. change OP_PUSHDATA1 with 76. change OP_PUSHDATA2 with 77.
        cbn [Z.leb Z.ltb Z.eqb Z.compare Pos.compare Pos.compare_cont Pos.eqb app length Nat.ltb Nat.leb firstn skipn le_value].
        replace (zlen d mod 256 + 256 * (zlen d / 256 mod 256 + 256 * 0)) with (zlen d) by lia.
        rewrite app_length. replace (Z.of_nat (length d + length rest) <? zlen d) with false by (unfold zlen; lia).
        unfold zlen. rewrite Nat2Z.id, firstn_app_exact, skipn_app_exact. reflexivity.
      * cbn [app get_op le_fixed]. change OP_PUSHDATA4 with 78. change OP_PUSHDATA1 with 76. change OP_PUSHDATA2 with 77.
        cbn [Z.leb Z.ltb Z.eqb Z.compare Pos.compare Pos.compare_cont Pos.eqb app length Nat.ltb Nat.leb firstn skipn le_value].
        replace (zlen d mod 256 + 256 * (zlen d / 256 mod 256 + 256 * (zlen d / 256 / 256 mod 256 + 256 * (zlen d / 256 / 256 / 256 mod 256 + 256 * 0)))) with (zlen d).
        2: { change (2 ^ 32) with 4294967296 in Hlen. lia. }
        rewrite app_length. replace (Z.of_nat (length d + length rest) <? zlen d) with false by (unfold zlen; lia).
        unfold zlen. rewrite Nat2Z.id, firstn_app_exact, skipn_app_exact. reflexivity.
Qed.

(* small serialisations, needed to reason about the literal classes *)
Lemma serialize_small_pos x : 1 <= x <= 127 -> sn_serialize x = [x].
Proof.
  intros H. unfold sn_serialize, sn_serialize_fuel. replace (x =? 0) with false by lia. replace (x <? 0) with false by lia.
  cbn [le_digits]. replace (x =? 0) with false by lia. replace (x mod 256) with x by lia. replace (x / 256) with 0 by lia.
  cbn [Z.eqb]. unfold sn_fix_sign, vlast. cbn [last]. replace (128 <=? x) with false by lia. reflexivity.
Qed.
Lemma serialize_m1 : sn_serialize (-1) = [129]. Proof. reflexivity. Qed.
Lemma serialize_0 : sn_serialize 0 = []. Proof. reflexivity. Qed.

Lemma serialize_len_le8 z : - 2 ^ 63 <= z < 2 ^ 63 -> zlen (sn_serialize z) <= 9.
Proof.
  intros Hz. unfold zlen. assert (H: (length (sn_serialize z) <= S 8)%nat).
  { apply serialize_length. change (256 ^ Z.of_nat 8) with (2 ^ 64). lia. change (128 * 256 ^ Z.of_nat 8) with (2 ^ 71). lia. }
  lia.
Qed.

(* what push_int64 emits *)
Definition int_op (n : Z) : Z * bytes :=
  if (n =? -1) || ((1 <=? n) && (n <=? 16)) then (n + 80, [])
  else if n =? 0 then (0, [])
  else (push_opcode_for (zlen (sn_serialize n)), sn_serialize n).

Theorem get_op_push_int64 n rest : - 2 ^ 63 <= n < 2 ^ 63 ->
  get_op (push_int64 n ++ rest) = (Some (int_op n), rest).
Proof.
  intros Hn. unfold push_int64, int_op. change (OP_1 - 1) with 80. change OP_0 with 0.
  destruct ((n =? -1) || ((1 <=? n) && (n <=? 16))) eqn:E.
  - cbn [app get_op]. change OP_PUSHDATA4 with 78. replace (n + 80 <=? 78) with false by lia. reflexivity.
  - destruct (n =? 0) eqn:E0.
    + cbn [app get_op]. change OP_PUSHDATA4 with 78. change OP_PUSHDATA1 with 76. cbn [Z.leb Z.ltb Z.compare].
      replace (Z.of_nat (length rest) <? 0) with false by lia. reflexivity.
    + apply get_op_push_data. pose proof (serialize_len_le8 n Hn). change (2 ^ 32) with 4294967296. lia.
Qed.

Theorem int_op_pushes n : - 2 ^ 63 <= n < 2 ^ 63 -> pushed_value (int_op n) = Some (sn_serialize n).
Proof.
  intros Hn. unfold int_op, pushed_value. change OP_PUSHDATA4 with 78. change OP_1NEGATE with 79. change OP_1 with 81. change OP_16 with 96.
  destruct ((n =? -1) || ((1 <=? n) && (n <=? 16))) eqn:E.
  - assert (Hc: n = -1 \/ 1 <= n <= 16).
    { apply Bool.orb_true_iff in E. destruct E as [E|E]. left. apply Z.eqb_eq. exact E. right. apply Bool.andb_true_iff in E. destruct E as [E1 E2]. apply Z.leb_le in E1. apply Z.leb_le in E2. lia. }
    destruct Hc as [-> | Hc]. reflexivity.
    replace (n + 80 <=? 78) with false by lia.
    replace (n + 80 =? 79) with false by lia. replace (81 <=? n + 80) with true by lia. replace (n + 80 <=? 96) with true by lia.
    cbn [orb andb]. do 2 f_equal. lia.
  - destruct (n =? 0) eqn:E0.
    + cbn. assert (n = 0) by lia. subst. reflexivity.
    + unfold push_opcode_for. pose proof (serialize_len_le8 n Hn).
      pose proof (Nat2Z.is_nonneg (length (sn_serialize n))) as Hnn. fold (zlen (sn_serialize n)) in Hnn.
      replace (zlen (sn_serialize n) <? 76) with true by lia.
      replace (zlen (sn_serialize n) <=? 78) with true by lia. reflexivity.
Qed.

Theorem int_op_minimal n : - 2 ^ 63 <= n < 2 ^ 63 ->
  let '(opcode, data) := int_op n in opcode <= OP_PUSHDATA4 -> check_minimal_push data opcode = true.
Proof.
  intros Hn. unfold int_op. change OP_PUSHDATA4 with 78.
  destruct ((n =? -1) || ((1 <=? n) && (n <=? 16))) eqn:E. { intros H. lia. }
  destruct (n =? 0) eqn:E0. { intros _. reflexivity. }
  intros _. pose proof (serialize_len_le8 n Hn) as Hl.
  assert (Hne: sn_serialize n <> []).
  { intro Hc. assert (Hv: sn_set_vch (sn_serialize n) = n). { apply serialize_then_set_vch. change (256 ^ Z.of_nat 8) with (2 ^ 64). lia. }
    rewrite Hc in Hv. cbn in Hv. lia. }
  unfold check_minimal_push, push_opcode_for. change OP_0 with 0. change OP_PUSHDATA1 with 76. change OP_PUSHDATA2 with 77.
  assert (Hpos: 0 < zlen (sn_serialize n)). { unfold zlen. destruct (sn_serialize n); [contradiction|cbn [length]; lia]. }
  replace (zlen (sn_serialize n) =? 0) with false by lia.
  (* a one-byte encoding of 1..16 or -1 would be the small-integer case *)
  assert (Hsmall: zlen (sn_serialize n) = 1 -> ~ (1 <= hd 0 (sn_serialize n) <= 16) /\ hd 0 (sn_serialize n) <> 129).
  { intros H1. assert (Hv: sn_set_vch (sn_serialize n) = n). { apply serialize_then_set_vch. change (256 ^ Z.of_nat 8) with (2 ^ 64). lia. }
    destruct (sn_serialize n) as [|x [|y r]]; unfold zlen in H1; cbn [length] in H1; try lia.
    cbn [hd]. unfold sn_set_vch, vlast, zlen in Hv. cbn [last le_value length] in Hv.
    change (256 ^ (Z.of_nat 1 - 1)) with 1 in Hv.
    destruct (128 <=? x) eqn:Ex; split; lia. }
  destruct (zlen (sn_serialize n) =? 1) eqn:E1.
  - destruct (Hsmall ltac:(lia)) as [Ha Hb]. cbn [andb].
    replace ((1 <=? hd 0 (sn_serialize n)) && (hd 0 (sn_serialize n) <=? 16)) with false by lia.
    replace (hd 0 (sn_serialize n) =? 129) with false by lia.
    replace (zlen (sn_serialize n) <=? 75) with true by lia. replace (zlen (sn_serialize n) <? 76) with true by lia. cbv iota. apply Z.eqb_refl.
  - cbn [andb]. replace (zlen (sn_serialize n) <=? 75) with true by lia. replace (zlen (sn_serialize n) <? 76) with true by lia. cbv iota. apply Z.eqb_refl.
Qed.

(* ------------------------------------------------------------ hex literals / data values *)
Lemma bytes_eqb_v_true a b : bytes_eqb_v a b = true <-> a = b.
Proof. unfold bytes_eqb_v. destruct (list_eq_dec Z.eq_dec a b); split; congruence. Qed.

Definition data_op (d : bytes) : Z * bytes :=
  if (length d <? 5)%nat then
    match sn_ctor d false 4 with
    | Ok i => if bytes_eqb_v (sn_serialize i) d then int_op i else (push_opcode_for (zlen d), d)
    | _ => (push_opcode_for (zlen d), d)
    end
  else (push_opcode_for (zlen d), d).

Lemma ctor4_range d i : bytes_ok d -> sn_ctor d false 4 = Ok i -> - 2 ^ 63 <= i < 2 ^ 63.
Proof.
  intros Hok H. unfold sn_ctor in H. destruct (4 <? length d)%nat eqn:E; [discriminate|]. cbn [andb] in H. inversion H; subst.
  apply Nat.ltb_ge in E. rewrite set_vch_is_spec_value by assumption.
  pose proof (spec_value_range 3 d Hok ltac:(lia)) as Hr. change (128 * 256 ^ Z.of_nat 3) with (2 ^ 31) in Hr.
  assert (2 ^ 31 < 2 ^ 63) by (vm_compute; reflexivity). lia.
Qed.

Theorem get_op_emit_data d rest : bytes_ok d -> zlen d < 2 ^ 32 ->
  get_op (value_emit (VData d) ++ rest) = (Some (data_op d), rest).
Proof.
  intros Hok Hlen. unfold value_emit, data_op. destruct (length d <? 5)%nat; [|apply get_op_push_data; assumption].
  destruct (sn_ctor d false 4) as [i|x|x] eqn:Ec; try (apply get_op_push_data; assumption).
  destruct (bytes_eqb_v (sn_serialize i) d); [|apply get_op_push_data; assumption].
  apply get_op_push_int64. eapply ctor4_range; eassumption.
Qed.

Lemma push_opcode_for_small n : 0 <= n -> push_opcode_for n <= OP_PUSHDATA4.
Proof. intros. unfold push_opcode_for. change OP_PUSHDATA1 with 76. change OP_PUSHDATA2 with 77. change OP_PUSHDATA4 with 78.
  destruct (n <? 76) eqn:?; [lia|]. destruct (n <=? 255); [lia|]. destruct (n <=? 65535); lia. Qed.

Theorem data_op_pushes d : bytes_ok d -> pushed_value (data_op d) = Some d.
Proof.
  intros Hok. pose proof (Nat2Z.is_nonneg (length d)) as Hn. fold (zlen d) in Hn.
  assert (Hraw: pushed_value (push_opcode_for (zlen d), d) = Some d).
  { unfold pushed_value. pose proof (push_opcode_for_small (zlen d) Hn). replace (push_opcode_for (zlen d) <=? OP_PUSHDATA4) with true by lia. reflexivity. }
  unfold data_op. destruct (length d <? 5)%nat; [|exact Hraw].
  destruct (sn_ctor d false 4) as [i|x|x] eqn:Ec; try exact Hraw.
  destruct (bytes_eqb_v (sn_serialize i) d) eqn:Eb; [|exact Hraw].
  apply bytes_eqb_v_true in Eb. rewrite int_op_pushes. congruence. eapply ctor4_range; eassumption.
Qed.

Lemma raw_push_minimal d : bytes_ok d -> d <> [] ->
  ~ (zlen d = 1 /\ 1 <= hd 0 d <= 16) -> ~ (zlen d = 1 /\ hd 0 d = 129) ->
  check_minimal_push d (push_opcode_for (zlen d)) = true.
Proof.
  intros Hok Hne H1 H2. pose proof (Nat2Z.is_nonneg (length d)) as Hn. fold (zlen d) in Hn.
  assert (Hpos: 0 < zlen d). { unfold zlen. destruct d; [contradiction|cbn [length]; lia]. }
  unfold check_minimal_push, push_opcode_for. change OP_0 with 0. change OP_PUSHDATA1 with 76. change OP_PUSHDATA2 with 77.
  replace (zlen d =? 0) with false by lia.
  destruct (zlen d =? 1) eqn:E1; cbn [andb].
  - assert (Hz: zlen d = 1) by lia.
    replace ((1 <=? hd 0 d) && (hd 0 d <=? 16)) with false.
    2: { symmetry. apply Bool.andb_false_iff. destruct (Z.leb_spec 1 (hd 0 d)); auto. destruct (Z.leb_spec (hd 0 d) 16); auto. exfalso. apply H1. lia. }
    replace (hd 0 d =? 129) with false. 2: { symmetry. apply Z.eqb_neq. intro Hc. apply H2. lia. }
    replace (zlen d <=? 75) with true by lia. replace (zlen d <? 76) with true by lia. apply Z.eqb_refl.
  - destruct (Z.leb_spec (zlen d) 75). replace (zlen d <? 76) with true by lia. apply Z.eqb_refl.
    replace (zlen d <? 76) with false by lia.
    destruct (Z.leb_spec (zlen d) 255). reflexivity.
    destruct (Z.leb_spec (zlen d) 65535); reflexivity.
Qed.

Theorem data_op_minimal d : bytes_ok d ->
  let '(opcode, data) := data_op d in opcode <= OP_PUSHDATA4 -> check_minimal_push data opcode = true.
Proof.
  intros Hok. unfold data_op.
  destruct (length d <? 5)%nat eqn:E5.
  - apply Nat.ltb_lt in E5.
    assert (Hc: sn_ctor d false 4 = Ok (spec_value d)). { apply ctor_ok; auto. lia. discriminate. }
    rewrite Hc.
    destruct (bytes_eqb_v (sn_serialize (spec_value d)) d) eqn:Eb.
    + apply int_op_minimal. eapply ctor4_range; eassumption.
    + intros _.
      assert (Hneq: sn_serialize (spec_value d) <> d). { intro Hx. apply bytes_eqb_v_true in Hx. congruence. }
      apply raw_push_minimal; auto.
      * intro Hd. subst d. apply Hneq. reflexivity.
      * intros [Hz Hh]. destruct d as [|x [|y r]]; unfold zlen in Hz; cbn [length] in Hz; try lia. cbn [hd] in Hh.
        apply Hneq. replace (spec_value [x]) with x. apply serialize_small_pos. lia.
        unfold spec_value, spec_negative, spec_magnitude, vlast, zlen. cbn [last rev app le_value length]. replace (128 <=? x) with false by lia.
        change (256 ^ (Z.of_nat 1 - 1)) with 1. lia.
      * intros [Hz Hh]. destruct d as [|x [|y r]]; unfold zlen in Hz; cbn [length] in Hz; try lia. cbn [hd] in Hh. subst x.
        apply Hneq. reflexivity.
  - intros _. apply Nat.ltb_ge in E5.
    apply raw_push_minimal; auto.
    + intro Hd. subst d. cbn in E5. lia.
    + intros [Hz _]. unfold zlen in Hz. lia.
    + intros [Hz _]. unfold zlen in Hz. lia.
Qed.

(* ------------------------------------------------------------ decoding a compiled sequence *)
Lemma decode_ops_fuel_step fuel op chunk rest :
  chunk <> [] -> get_op (chunk ++ rest) = (Some op, rest) -> (length (chunk ++ rest) <= fuel)%nat ->
  decode_ops_fuel fuel (chunk ++ rest) = op :: decode_ops_fuel (fuel - length chunk) rest.
Proof.
  intros Hne Hget Hf. destruct fuel as [|f]. { destruct chunk; [contradiction|cbn in Hf; lia]. }
  cbn [decode_ops_fuel]. destruct (chunk ++ rest) as [|b r] eqn:E. { destruct chunk; [contradiction|discriminate]. }
  rewrite Hget. f_equal.
  (* more fuel than needed is harmless *)
  assert (Hmono: forall f1 f2 s, (length s <= f1)%nat -> (length s <= f2)%nat -> decode_ops_fuel f1 s = decode_ops_fuel f2 s).
  { clear. induction f1 as [|f1 IH]; intros f2 s H1 H2.
    - destruct s; [|cbn in H1; lia]. destruct f2; reflexivity.
    - destruct f2 as [|f2]. destruct s; [reflexivity|cbn in H2; lia].
      cbn [decode_ops_fuel]. destruct s as [|b r]. reflexivity.
      destruct (get_op (b :: r)) as [[op|] pc'] eqn:Eg; [|reflexivity].
      f_equal. pose proof (get_op_shorter _ _ _ Eg) as Hs. cbn [length] in *. apply IH; lia. }
  assert (Hl: length (b :: r) = (length chunk + length rest)%nat) by (rewrite <- E; apply app_length).
  assert (1 <= length chunk)%nat by (destruct chunk; [contradiction|cbn [length]; lia]).
  apply Hmono; lia.
Qed.

(* a list of chunks each of which decodes to one operation decodes, as a whole, to that list of operations *)
Theorem decode_concat (chunks : list (bytes * (Z * bytes))) :
  (forall c op rest, In (c, op) chunks -> c <> [] /\ get_op (c ++ rest) = (Some op, rest)) ->
  decode_ops (concat (map fst chunks)) = map snd chunks.
Proof.
  unfold decode_ops. intros H.
  assert (G: forall fuel, (length (concat (map fst chunks)) <= fuel)%nat -> decode_ops_fuel fuel (concat (map fst chunks)) = map snd chunks).
  { induction chunks as [|[c op] r IH]; intros fuel Hf.
    - cbn. destruct fuel; reflexivity.
    - cbn [map concat fst snd] in *. destruct (H c op (concat (map fst r)) (or_introl eq_refl)) as [Hne Hget].
      rewrite (decode_ops_fuel_step fuel op c _ Hne Hget Hf). f_equal. apply IH.
      + intros c0 op0 rest0 Hin. apply H. right. exact Hin.
      + rewrite app_length in Hf. lia. }
  apply G. lia.
Qed.

(* ------------------------------------------------------------ every value compiles to one decodable operation *)
Definition op_of (v : value) : Z * bytes :=
  match v with
  | VInt n => int_op n
  | VData d => data_op d
  | VOpcode o => (o, [])
  | VString s => (push_opcode_for (zlen s), s)
  | VFun _ _ w => (push_opcode_for (zlen w), w)
  end.

Definition wf_value (v : value) : Prop :=
  match v with
  | VInt n => - 2 ^ 63 <= n < 2 ^ 63
  | VData d => bytes_ok d /\ zlen d < 2 ^ 32
  | VOpcode o => (OP_PUSHDATA4 < o <= 255) \/ o = 0      (* an opcode that carries no immediate data *)
  | VString s => zlen s < 2 ^ 32
  | VFun _ _ w => zlen w < 2 ^ 32
  end.

Lemma push_data_nonempty d : push_data d <> [].
Proof. unfold push_data. repeat match goal with |- context [if ?b then _ else _] => destruct b end; discriminate. Qed.
Lemma push_int64_nonempty n : push_int64 n <> [].
Proof. unfold push_int64. repeat match goal with |- context [if ?b then _ else _] => destruct b end; try discriminate; apply push_data_nonempty. Qed.

Theorem emit_decodes v rest : wf_value v ->
  value_emit v <> [] /\ get_op (value_emit v ++ rest) = (Some (op_of v), rest).
Proof.
  destruct v as [n|o|d|s|f a w]; cbn [wf_value op_of]; intros H.
  - split. apply push_int64_nonempty. apply get_op_push_int64; assumption.
  - split. discriminate. unfold value_emit, push_opcode. cbn [app get_op]. change OP_PUSHDATA4 with 78 in *.
    destruct H as [H|H].
    + replace (o <=? 78) with false by lia. reflexivity.
    + subst o. cbn [Z.leb Z.ltb Z.compare]. change OP_PUSHDATA1 with 76. cbn [Z.ltb Z.compare].
      replace (Z.of_nat (length rest) <? 0) with false by lia. reflexivity.
  - destruct H as [Hok Hl]. split.
    + unfold value_emit. repeat match goal with |- context [if ?b then _ else _] => destruct b | |- context [match ?x with Ok _ => _ | Exn _ => _ | Crash _ => _ end] => destruct x end;
        first [apply push_data_nonempty | apply push_int64_nonempty].
    + apply get_op_emit_data; assumption.
  - split. apply push_data_nonempty. apply get_op_push_data; assumption.
  - split. apply push_data_nonempty. apply get_op_push_data; assumption.
Qed.

Theorem compile_decodes (vs : list value) : Forall wf_value vs ->
  decode_ops (concat (map value_emit vs)) = map op_of vs.
Proof.
  intros Hwf.
  pose proof (decode_concat (map (fun v => (value_emit v, op_of v)) vs)) as H.
  rewrite !map_map in H. cbn [fst snd] in H. apply H.
  intros c op rest Hin. apply in_map_iff in Hin. destruct Hin as [v [Hv Hin]]. inversion Hv; subst.
  rewrite Forall_forall in Hwf. apply emit_decodes. apply Hwf. exact Hin.
Qed.

(* bracketed sub-script: the value is the compiled body (hence a push of it when emitted) *)
Lemma classify_bracket do_exec f v toks vals :
  str_eqb v [CH_0; CH_x] = false ->
  ((1 <? length v)%nat && (hd 0 v =? CH_LBR) && (last_ch v =? CH_RBR)) = true ->
  parse_args_str (tl v) (length v - 2) = POk toks ->
  parse_vec do_exec f toks [] false [] = POk vals ->
  classify do_exec (S f) v = POk (VData (concat (map value_emit vals))).
Proof. intros H0 H1 H2 H3. simpl. rewrite H0, H1, H2, H3. reflexivity. Qed.
