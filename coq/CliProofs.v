From Coq Require Import ZifyBool.
From BV Require Import Base BaseProofs ScriptNum Script Interp Session Value Transforms Cli.
From BV.Gen Require Import CliTables.
Local Open Scope Z_scope.
Ltac Zify.zify_post_hook ::= Z.div_mod_to_equations.

Lemma hexstr_length b : length (hexstr b) = (2 * length b)%nat.
Proof. induction b as [|x r IH]; cbn [hexstr length]. reflexivity. rewrite IH. lia. Qed.

Lemma hexdigit_range n : 0 <= n < 16 -> (48 <= hexdigit n <= 57) \/ (97 <= hexdigit n <= 102).
Proof. intros H. unfold hexdigit. destruct (Z.ltb_spec n 10); lia. Qed.

Lemma hexdigit_inj a b : 0 <= a < 16 -> 0 <= b < 16 -> hexdigit a = hexdigit b -> a = b.
Proof. intros Ha Hb. unfold hexdigit. destruct (Z.ltb_spec a 10); destruct (Z.ltb_spec b 10); lia. Qed.

Lemma hexstr_chars b c : bytes_ok b -> In c (hexstr b) -> (48 <= c <= 57) \/ (97 <= c <= 102).
Proof.
  induction b as [|x r IH]; intros Hok Hin; cbn [hexstr] in Hin. contradiction.
  apply bytes_ok_cons in Hok. destruct Hok as [Hx Hr].
  destruct Hin as [<-|[<-|Hin]]. apply hexdigit_range; lia. apply hexdigit_range; lia. apply IH; assumption.
Qed.

Lemma hexstr_injective a b : bytes_ok a -> bytes_ok b -> hexstr a = hexstr b -> a = b.
Proof.
  revert b. induction a as [|x r IH]; intros b Ha Hb H.
  - destruct b; [reflexivity|discriminate].
  - destruct b as [|y s]; [discriminate|]. cbn [hexstr] in H.
    apply bytes_ok_cons in Ha. apply bytes_ok_cons in Hb. destruct Ha as [Hx Hr]. destruct Hb as [Hy Hs].
    injection H as H1 H2 H3.
    apply hexdigit_inj in H1; try lia. apply hexdigit_inj in H2; try lia.
    f_equal. lia. apply IH; assumption.
Qed.

(* newline-terminated lines whose bodies contain no newline concatenate injectively *)
Lemma lines_injective (a b : list bytes) :
  Forall (fun l => ~ In 10 l) a -> Forall (fun l => ~ In 10 l) b ->
  concat (map (fun l => l ++ [10]) a) = concat (map (fun l => l ++ [10]) b) -> a = b.
Proof.
  revert b. induction a as [|x r IH]; intros b Ha Hb H.
  - destruct b as [|y s]; [reflexivity|]. cbn in H. destruct y; discriminate.
  - destruct b as [|y s]. { cbn in H. destruct x; discriminate. }
    cbn [map concat] in H. inversion Ha as [|? ? Hx Hr]; subst. inversion Hb as [|? ? Hy Hs]; subst.
    assert (Hhead: forall (x y : bytes) (t u : bytes), ~ In 10 x -> ~ In 10 y -> (x ++ [10]) ++ t = (y ++ [10]) ++ u -> x = y /\ t = u).
    { clear. induction x as [|c x IH]; intros y t u Hx Hy H.
      - destruct y as [|d y]. cbn in H. inversion H. auto. cbn in H. inversion H; subst. exfalso. apply Hy. left. reflexivity.
      - destruct y as [|d y]. cbn in H. inversion H; subst. exfalso. apply Hx. left. reflexivity.
        cbn in H. inversion H; subst. destruct (IH y t u) as [E1 E2]; auto.
        intro Hc. apply Hx. right. exact Hc. intro Hc. apply Hy. right. exact Hc. subst. auto. }
    destruct (Hhead x y _ _ Hx Hy H) as [E1 E2]. subst. f_equal. apply IH; assumption.
Qed.

Lemma hexstr_no_newline b : bytes_ok b -> ~ In 10 (hexstr b).
Proof. intros Hok Hin. destruct (hexstr_chars b 10 Hok Hin); lia. Qed.

Lemma print_stack_raw_injective a b : Forall bytes_ok a -> Forall bytes_ok b -> print_stack_raw a = print_stack_raw b -> a = b.
Proof.
  intros Ha Hb H. unfold print_stack_raw in H.
  assert (G: forall l, concat (map (fun it => hexstr it ++ [10]) l) = concat (map (fun l0 => l0 ++ [10]) (map hexstr l))).
  { intros l. rewrite map_map. reflexivity. }
  rewrite !G in H. apply lines_injective in H.
  - assert (Hr: rev a = rev b).
    { assert (Hra: Forall bytes_ok (rev a)) by (apply Forall_rev; exact Ha).
      assert (Hrb: Forall bytes_ok (rev b)) by (apply Forall_rev; exact Hb).
      revert Hra Hrb H. generalize (rev a) (rev b). clear.
      induction l as [|x r IH]; intros l0 Hra Hrb H; destruct l0 as [|y s]; try discriminate; try reflexivity.
      cbn [map] in H. injection H as H1 H2. inversion Hra; subst. inversion Hrb; subst.
      f_equal. apply hexstr_injective; assumption. apply IH; assumption. }
    rewrite <- (rev_involutive a), <- (rev_involutive b), Hr. reflexivity.
  - apply Forall_forall. intros l Hin. apply in_map_iff in Hin. destruct Hin as [x [<- Hx]].
    apply hexstr_no_newline. rewrite Forall_forall in Ha. apply Ha. apply in_rev. exact Hx.
  - apply Forall_forall. intros l Hin. apply in_map_iff in Hin. destruct Hin as [x [<- Hx]].
    apply hexstr_no_newline. rewrite Forall_forall in Hb. apply Hb. apply in_rev. exact Hx.
Qed.

(* what an exit-0 run means *)
Lemma main_ok_inv chk script_str args flag_mod z out :
  main_noninteractive chk script_str args flag_mod z = CliOk out ->
  exists flags scr stack v',
    (match flag_mod with None => Some main_initial_flags | Some m => svf_parse_flags main_initial_flags m end) = Some flags /\
    args_data args [] = POk stack /\
    (match script_str with None => POk [] | Some s => arg_data do_exec s end) = POk scr /\
    let c := {| c_flags := flags; c_sigver := SV_BASE; c_allow_disabled := z; c_pv_map := []; c_pv_keys := []; c_chk := chk; c_hash := base_hashes |} in
    let v := setup_env c scr stack [] init_execdata None in
    dbg_continue Der.low_s_strict (fun _ _ _ _ => false) Hashes.sha256 (continue_fuel v) c v = (v', SOk) /\
    out = print_stack_raw (e_stack (i_e v')).
Proof.
  unfold main_noninteractive. intros H.
  destruct (match flag_mod with None => Some main_initial_flags | Some m => svf_parse_flags main_initial_flags m end) as [flags|] eqn:Ef; [|discriminate].
  destruct (match script_str with None => POk [] | Some s => arg_data do_exec s end) as [scr| |] eqn:Es; try discriminate.
  match type of H with (if ?b then _ else _) = _ => destruct b; [discriminate|] end.
  destruct (args_data args []) as [stack| |] eqn:Ea; try discriminate.
  match type of H with (if ?b then _ else _) = _ => destruct b; [discriminate|] end.
  match type of H with (let '(_, _) := ?x in _) = _ => destruct x as [v' st] eqn:Ec end.
  destruct st; try discriminate. inversion H; subst.
  exists flags, scr, stack, v'. repeat split; try assumption; reflexivity.
Qed.
