(* Model of the literal classifier and compiler front end:
     Value(const char-ptr, vlen) / Value::parse_args / operator>> / Value::serialize      value.h
     GetOpCode                                                                        debugger/script.cpp
     TryHex, IsHex, IsSpace                                                           util/strencodings.cpp
     token parser of Instance::eval (exec)                                            instance.cpp:244-291
   Strings are lists of character codes (no NUL inside). *)
From BV Require Import Base ScriptNum Script.
From BV.Gen Require Import Consts OpNames.
Local Open Scope Z_scope.

Definition str := list Z.
Definition str_eqb (a b : str) : bool := if list_eq_dec Z.eq_dec a b then true else false.

Definition CH_LBR := 91. Definition CH_RBR := 93. Definition CH_SP := 32. Definition CH_TAB := 9.
Definition CH_NL := 10. Definition CH_CR := 13. Definition CH_HASH := 35. Definition CH_LPAR := 40. Definition CH_RPAR := 41.
Definition CH_MINUS := 45. Definition CH_0 := 48. Definition CH_x := 120.

(* ------------------------------------------------------------ strencodings *)
Definition is_space (c : Z) : bool := (c =? 32) || ((9 <=? c) && (c <=? 13)).
Definition hex_digit (c : Z) : option Z :=
  if (48 <=? c) && (c <=? 57) then Some (c - 48)
  else if (97 <=? c) && (c <=? 102) then Some (c - 87)
  else if (65 <=? c) && (c <=? 70) then Some (c - 55)
  else None.
Definition is_hex (s : str) : bool :=
  forallb (fun c => match hex_digit c with Some _ => true | None => false end) s
  && negb (length s =? 0)%nat && Nat.even (length s).

Fixpoint drop_spaces (s : str) : str :=
  match s with c :: r => if is_space c then drop_spaces r else s | [] => [] end.

(* TryHex: Some bytes on success, None on failure *)
Fixpoint try_hex_fuel (fuel : nat) (s : str) (acc : bytes) : option bytes :=
  match fuel with
  | O => Some (rev acc)
  | S f =>
    match s with
    | [] => Some (rev acc)
    | _ =>
      match drop_spaces s with
      | [] => Some (rev acc)                    (* only whitespace was left: NUL terminator reached *)
      | c1 :: r1 =>
        match hex_digit c1 with
        | None => None
        | Some h =>
          match r1 with
          | [] => None                          (* odd number of digits *)
          | c2 :: r2 =>
            match hex_digit c2 with
            | None => None
            | Some l => try_hex_fuel f r2 ((16 * h + l) :: acc)
            end
          end
        end
      end
    end
  end.
Definition try_hex (s : str) : option bytes := try_hex_fuel (S (length s)) s [].

(* ------------------------------------------------------------ GetOpCode *)
Fixpoint assoc_str (tbl : list (str * Z)) (name : str) : option Z :=
  match tbl with
  | [] => None
  | (n, v) :: r => if str_eqb n name then Some v else assoc_str r name
  end.

Definition strip_op_prefix (name : str) : str :=
  match name with
  | 79 :: 80 :: 95 :: r => r      (* "OP_" *)
  | _ => name
  end.

(* returns OP_INVALIDOPCODE (0xff) when nothing matches, like the C++ *)
Definition get_opcode (name0 : str) : Z :=
  let name := strip_op_prefix name0 in
  let xform :=
      match name with
      | 120 :: rest =>
          if is_hex rest && (length name =? 3)%nat then
            match rest with
            | [a; b] => match hex_digit a, hex_digit b with Some h, Some l => Some (16 * h + l) | _, _ => None end
            | _ => None
            end
          else None
      | _ => None
      end in
  match xform with
  | Some v => v
  | None => match assoc_str getopcode_names name with Some v => v | None => OP_INVALIDOPCODE end
  end.

(* ------------------------------------------------------------ decimal literals *)
Definition is_digit (c : Z) : bool := (48 <=? c) && (c <=? 57).
Fixpoint dec_value (s : str) (acc : Z) : Z :=
  match s with [] => acc | c :: r => dec_value r (10 * acc + (c - 48)) end.

(* [atoll(v)] followed by re-printing with %lld and strcmp: v is accepted as a number exactly when it is
   the canonical decimal form of an int64 (no '+', no leading zeros, "-0" excluded) *)
Definition canonical_decimal (lo hi : Z) (v : str) : option Z :=
  let body (digits : str) : option Z :=
      match digits with
      | [] => None
      | d :: r => if forallb is_digit digits && (negb (d =? 48) || (length r =? 0)%nat)
                  then Some (dec_value digits 0) else None
      end in
  match v with
  | 45 :: digits =>
      match body digits with
      | Some n => if (n =? 0) || (- n <? lo) then None else Some (- n)
      | None => None
      end
  | _ => match body v with
         | Some n => if hi <? n then None else Some n
         | None => None
         end
  end.

Definition INT64_LO := -9223372036854775808. Definition INT64_HI := 9223372036854775807.
Definition INT32_LO := -2147483648. Definition INT32_HI := 2147483647.

(* ------------------------------------------------------------ Value *)
Inductive value :=
| VInt (i : Z)
| VOpcode (o : Z)
| VData (d : bytes)
| VString (s : str)
| VFun (f : str) (arg : str) (whole : str).   (* name(arg): handled by the transform layer *)

Inductive parse_res (A : Type) := POk (a : A) | PExit1 (* exit(1) with a diagnostic *) | PAbort (* uncaught exception / crash inside a transform *).
Arguments POk {A} _. Arguments PExit1 {A}. Arguments PAbort {A}.

Definition bytes_eqb_v (a b : bytes) : bool := if list_eq_dec Z.eq_dec a b then true else false.

(* Value::data_value() *)
Definition value_data_value (v : value) : bytes :=
  match v with
  | VInt i => sn_serialize i
  | VOpcode o => [o]
  | VData d => d
  | VString s => s
  | VFun _ _ w => w
  end.

(* Value::operator>>(CScript&) : bytes appended to the script *)
Definition value_emit (v : value) : bytes :=
  match v with
  | VOpcode o => push_opcode o
  | VInt i => push_int64 i
  | VData d =>
      if (length d <? 5)%nat then
        (* pushed as a number when (and only when) that yields exactly these bytes *)
        match sn_ctor d false 4 with
        | Ok i => if bytes_eqb_v (sn_serialize i) d then push_int64 i else push_data d
        | _ => push_data d
        end
      else push_data d
  | VString s => push_data s
  | VFun _ _ w => push_data w
  end.

(* ------------------------------------------------------------ Value::parse_args(const char-ptr, len) tokenizer *)
Definition sat (s : str) (i : nat) : Z := nth i s 0.      (* s[i]; the C string is NUL-terminated *)
Definition is_sep (c : Z) : bool :=
  (c =? CH_RBR) || (c =? CH_SP) || (c =? CH_TAB) || (c =? CH_NL) || (c =? CH_CR) || (c =? CH_HASH).
Definition substr (s : str) (a b : nat) : str := firstn (b - a) (skipn a s).   (* strndup(&s[a], b-a) *)

(* while ((++i) <= args_len && depth > 0) { ch = s[i]; depth += (ch=='[') - (ch==']'); } *)
Fixpoint scan_br (fuel : nat) (s : str) (len i : nat) (depth ch : Z) : nat * Z * Z :=
  match fuel with
  | O => (i, depth, ch)
  | S f =>
      let i' := S i in
      if (i' <=? len)%nat && (0 <? depth) then
        let ch' := sat s i' in
        scan_br f s len i' (depth + (if ch' =? CH_LBR then 1 else 0) - (if ch' =? CH_RBR then 1 else 0)) ch'
      else (i', depth, ch)
  end.

Fixpoint skip_to_eol (fuel : nat) (s : str) (len i : nat) : nat :=
  match fuel with
  | O => i
  | S f => if (i <? len)%nat && negb (sat s i =? CH_NL) && negb (sat s i =? CH_CR) then skip_to_eol f s len (S i) else i
  end.

Fixpoint pa_loop (fuel : nat) (s : str) (len i start : nat) (acc : list str) : parse_res (list str) :=
  match fuel with
  | O => POk (rev acc)
  | S f =>
      if (len <? i)%nat then POk (rev acc)
      else
        let ch0 := sat s (if (i =? len)%nat then i - 1 else i) in
        let '(i1, depth, ch1) := if ch0 =? CH_LBR then scan_br (S (S len)) s len i 1 ch0 else (i, 0, ch0) in
        if 0 <? depth then PExit1
        else if (i1 =? len)%nat || is_sep ch1 then
          let '(acc1, start1) := if (start =? i1)%nat then (acc, S start) else (substr s start i1 :: acc, S i1) in
          let '(i2, start2) :=
              if ch1 =? CH_HASH then let j := skip_to_eol (S len) s len i1 in (j, S j) else (i1, start1) in
          pa_loop f s len (S i2) start2 acc1
        else pa_loop f s len (S i1) start acc
  end.
Definition parse_args_str (s : str) (len : nat) : parse_res (list str) := pa_loop (S (S len)) s len 0%nat 0%nat [].

(* ------------------------------------------------------------ Value(const char-ptr) and parse_args(vector) *)
Section Classify.
(* the transform layer: [do_exec fun arg_value] = Some result for a known inline function *)
Variable do_exec : str -> value -> option (parse_res value).

Definition last_ch (v : str) : Z := last v 0.

(* function name scan: for (i = 0; i < 29 && v[i] && v[i] != '('; ++i) *)
Fixpoint fun_split (fuel : nat) (v : str) (acc : str) : option (str * str) :=
  match fuel with
  | O => None
  | S f => match v with
           | [] => None
           | c :: r => if c =? CH_LPAR then Some (rev acc, r) else fun_split f r (c :: acc)
           end
  end.

Fixpoint classify (fuel : nat) (v : str) : parse_res value :=
  match fuel with
  | O => PExit1
  | S f =>
    let vlen := length v in
    if str_eqb v [CH_0; CH_x] then POk (VData [])
    else if (1 <? vlen)%nat && (hd 0 v =? CH_LBR) && (last_ch v =? CH_RBR) then
      match parse_args_str (tl v) (vlen - 2) with
      | PExit1 => PExit1
      | PAbort => PAbort
      | POk toks =>
          match parse_vec f toks [] false [] with
          | PExit1 => PExit1
          | PAbort => PAbort
          | POk vals => POk (VData (concat (map value_emit vals)))
          end
      end
    else
      let fn_branch :=
          if (3 <? vlen)%nat && (last_ch v =? CH_RPAR) then
            match fun_split 30 v [] with
            | Some (name, rest) =>
                if (length name <? 30)%nat then
                  let arg := removelast rest in
                  match classify f arg with
                  | PExit1 => Some PExit1
                  | PAbort => Some PAbort
                  | POk av => match do_exec name av with
                              | Some r => Some r
                              | None => None          (* unknown function: expression left as is *)
                              end
                  end
                else None
            | None => None
            end
          else None in
      match fn_branch with
      | Some r => r
      | None =>
        match canonical_decimal INT64_LO INT64_HI v with
        | Some n => POk (VInt n)
        | None =>
          let o := get_opcode v in
          if negb (o =? OP_INVALIDOPCODE) then POk (VOpcode o)
          else
            let hexpart := if Nat.even vlen then
                             Some (match v with 48 :: 120 :: r => if (2 <? vlen)%nat then r else v | _ => v end)
                           else None in
            match hexpart with
            | Some h => match try_hex h with Some d => POk (VData d) | None => POk (VString v) end
            | None => POk (VString v)
            end
        end
      end
  end
(* Value::parse_args(std::vector<const char*>) with the bracket accumulator: [accum] holds the pieces of a
   bracketed expression split over several arguments; [accing] = accum != "" *)
with parse_vec (fuel : nat) (args : list str) (accum : str) (accing : bool) (acc : list value) : parse_res (list value) :=
  match fuel with
  | O => PExit1
  | S f =>
    match args with
    | [] => if accing then PExit1 else POk (rev acc)
    | v :: rest =>
      if accing then
        let accum' := accum ++ CH_SP :: v in
        if negb (length v =? 0)%nat && (last_ch v =? CH_RBR) then
          match classify f accum' with
          | PExit1 => PExit1
          | PAbort => PAbort
          | POk x => parse_vec f rest [] false (x :: acc)
          end
        else parse_vec f rest accum' true acc
      else if (length v =? 0)%nat then parse_vec f rest accum false acc
      else if (hd 0 v =? CH_LBR) && negb (last_ch v =? CH_RBR) then parse_vec f rest v true acc
      else match classify f v with
           | PExit1 => PExit1
           | PAbort => PAbort
           | POk x => parse_vec f rest [] false (x :: acc)
           end
    end
  end.

Definition total_len (args : list str) : nat := fold_left (fun n a => (n + length a + 2)%nat) args 4%nat.

(* btcc main: parse_args(argc, argv, 1) then Value::serialize *)
Definition btcc (args : list str) : parse_res bytes :=
  match parse_vec (2 * total_len args) args [] false [] with
  | PExit1 => PExit1
  | PAbort => PAbort
  | POk vals => POk (concat (map value_emit vals))
  end.

(* Value(script_str).data_value(): how btcdeb reads its script / stack arguments *)
Definition value_of_string (v : str) : parse_res value := classify (2 * (length v + 4)) v.
Definition arg_data (v : str) : parse_res bytes :=
  match value_of_string v with POk x => POk (value_data_value x) | PExit1 => PExit1 | PAbort => PAbort end.
End Classify.

(* ------------------------------------------------------------ Instance::eval token parser *)
(* Some script bytes, or None when a token is refused ("error: invalid opcode") *)
Fixpoint exec_compile (toks : list str) (acc : bytes) : option bytes :=
  match toks with
  | [] => Some acc
  | v :: rest =>
    match v with
    | [] => exec_compile rest acc
    | _ =>
      let num := match canonical_decimal INT32_LO INT32_HI v with
                 | Some n => if n =? 0 then None else Some n
                 | None => None
                 end in
      match num with
      | Some n => exec_compile rest (acc ++ push_int64 n)
      | None =>
        let hexd := if Nat.even (length v) then try_hex v else None in
        match hexd with
        | Some d => exec_compile rest (acc ++ push_data d)
        | None =>
          let o := get_opcode v in
          if negb (o =? OP_INVALIDOPCODE) then exec_compile rest (acc ++ push_opcode o) else None
        end
      end
    end
  end.
