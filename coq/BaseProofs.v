From BV Require Import Base.
Local Open Scope Z_scope.
Ltac Zify.zify_post_hook ::= Z.div_mod_to_equations.

Lemma bytes_okb_ok l : bytes_okb l = true <-> bytes_ok l.
Proof.
  unfold bytes_okb, bytes_ok. rewrite forallb_forall, Forall_forall.
  split; intros H x Hx; specialize (H x Hx); unfold byte_okb in *; lia.
Qed.

Lemma bytes_ok_app a b : bytes_ok (a ++ b) <-> bytes_ok a /\ bytes_ok b.
Proof. unfold bytes_ok. apply Forall_app. Qed.

Lemma bytes_ok_cons x l : bytes_ok (x :: l) <-> 0 <= x < 256 /\ bytes_ok l.
Proof. unfold bytes_ok. split; intro H. inversion H; auto. destruct H; constructor; auto. Qed.

Lemma le_value_app l1 l2 : le_value (l1 ++ l2) = le_value l1 + 256 ^ Z.of_nat (length l1) * le_value l2.
Proof.
  induction l1 as [|b r IH]; cbn [app le_value length].
  - rewrite Z.pow_0_r. lia.
  - rewrite IH. rewrite Nat2Z.inj_succ, Z.pow_succ_r by lia. lia.
Qed.

Lemma le_value_bound l : bytes_ok l -> 0 <= le_value l < 256 ^ Z.of_nat (length l).
Proof.
  induction l as [|b r IH]; intros H; cbn [le_value length].
  - rewrite Z.pow_0_r. lia.
  - apply bytes_ok_cons in H. destruct H as [Hb Hr]. specialize (IH Hr).
    rewrite Nat2Z.inj_succ, Z.pow_succ_r by lia. lia.
Qed.

Lemma le_digits_value fuel a : 0 <= a < 256 ^ Z.of_nat fuel -> le_value (le_digits fuel a) = a.
Proof.
  revert a; induction fuel as [|f IH]; intros a Ha; cbn [le_digits].
  - cbn in Ha. assert (a = 0) by lia. subst. reflexivity.
  - destruct (a =? 0) eqn:E.
    + apply Z.eqb_eq in E. subst. reflexivity.
    + cbn [le_value]. rewrite IH.
      * pose proof (Z.div_mod a 256). lia.
      * rewrite Nat2Z.inj_succ, Z.pow_succ_r in Ha by lia.
        split. { apply Z.div_pos; lia. } { apply Z.div_lt_upper_bound; lia. }
Qed.

Lemma le_digits_ok fuel a : 0 <= a -> bytes_ok (le_digits fuel a).
Proof.
  revert a; induction fuel as [|f IH]; intros a Ha; cbn [le_digits].
  - constructor.
  - destruct (a =? 0). constructor. apply bytes_ok_cons. split. lia. apply IH. apply Z.div_pos; lia.
Qed.

Lemma le_digits_length fuel a : (length (le_digits fuel a) <= fuel)%nat.
Proof.
  revert a; induction fuel as [|f IH]; intros a; cbn [le_digits length]. lia.
  destruct (a =? 0); cbn [length]. lia. specialize (IH (a / 256)). lia.
Qed.

(* the most significant digit produced is non-zero *)
Lemma le_digits_last_nz fuel a : 0 < a < 256 ^ Z.of_nat fuel -> 0 < last (le_digits fuel a) 0 < 256.
Proof.
  revert a; induction fuel as [|f IH]; intros a Ha.
  - cbn in Ha. lia.
  - cbn [le_digits]. destruct (a =? 0) eqn:E. lia.
    rewrite Nat2Z.inj_succ, Z.pow_succ_r in Ha by lia.
    destruct (Z.eq_dec (a / 256) 0) as [Hz|Hnz].
    + rewrite Hz. destruct f; cbn [le_digits last]; try rewrite Z.eqb_refl; cbn [last]; lia.
    + assert (Hr: 0 < a / 256 < 256 ^ Z.of_nat f).
      { split. pose proof (Z.div_pos a 256). lia. apply Z.div_lt_upper_bound; lia. }
      specialize (IH _ Hr).
      destruct (le_digits f (a / 256)) eqn:El.
      * cbn in IH. lia.
      * cbn [last]. cbn [last] in IH. exact IH.
Qed.

Lemma le_digits_nonempty fuel a : 0 < a -> (0 < fuel)%nat -> le_digits fuel a <> [].
Proof. intros Ha Hf. destruct fuel. lia. cbn [le_digits]. destruct (a =? 0) eqn:E. lia. discriminate. Qed.

Lemma le_fixed_length n a : length (le_fixed n a) = n.
Proof. revert a; induction n; intros; cbn; auto. Qed.

Lemma le_fixed_value n a : 0 <= a < 256 ^ Z.of_nat n -> le_value (le_fixed n a) = a.
Proof.
  revert a; induction n as [|n IH]; intros a Ha; cbn [le_fixed le_value].
  - cbn in Ha. lia.
  - rewrite Nat2Z.inj_succ, Z.pow_succ_r in Ha by lia. rewrite IH. lia.
    split. apply Z.div_pos; lia. apply Z.div_lt_upper_bound; lia.
Qed.

Lemma le_fixed_ok n a : bytes_ok (le_fixed n a).
Proof. revert a; induction n; intros; cbn [le_fixed]. constructor. apply bytes_ok_cons. split. lia. auto. Qed.

Lemma le_fixed_of_value l : bytes_ok l -> le_fixed (length l) (le_value l) = l.
Proof.
  induction l as [|b r IH]; intros H; cbn [length le_fixed le_value]. reflexivity.
  apply bytes_ok_cons in H. destruct H as [Hb Hr].
  f_equal. lia. replace ((b + 256 * le_value r) / 256) with (le_value r) by lia. exact (IH Hr).
Qed.

Lemma last_app_single {A} (l : list A) x d : last (l ++ [x]) d = x.
Proof. induction l as [|a r IH]; cbn. reflexivity. destruct (r ++ [x]) eqn:E. destruct r; discriminate. exact IH. Qed.

Lemma set_last_app l x y : set_last (l ++ [x]) y = l ++ [y].
Proof.
  induction l as [|a r IH]; cbn [app]. reflexivity.
  cbn [set_last]. destruct (r ++ [x]) eqn:E. destruct r; discriminate. rewrite IH. reflexivity.
Qed.

Lemma list_snoc_cases {A} (l : list A) : l = [] \/ exists r x, l = r ++ [x].
Proof.
  destruct l as [|a l']. left; reflexivity. right.
  destruct (@exists_last A (a :: l')) as [r [x H]]. discriminate. eauto.
Qed.
