From Coq Require Import ZifyBool.
From BV Require Import Base BaseProofs ScriptNum Script Interp EvalSpec.
From BV.Gen Require Import Consts Sites.
Local Open Scope Z_scope.
Ltac Zify.zify_post_hook ::= Z.div_mod_to_equations.

(* ------------------------------------------------------------ CastToBool *)
Lemma cast_to_bool_true_iff v : bytes_ok v -> (cast_to_bool v = true <-> spec_truthy v).
Proof.
  unfold spec_truthy. induction v as [|b r IH]; intros Hok.
  - cbn. split. discriminate. intros [i [Hi _]]. cbn in Hi. lia.
  - apply bytes_ok_cons in Hok. destruct Hok as [Hb Hr]. cbn [cast_to_bool].
    destruct (b =? 0) eqn:Eb.
    + apply Z.eqb_eq in Eb. subst b. rewrite (IH Hr). split.
      * intros [i [Hi [Hnz Hneg]]]. exists (S i). cbn [length nth]. split. lia. split. exact Hnz.
        intros [Hidx Hv]. apply Hneg. split. lia. exact Hv.
      * intros [i [Hi [Hnz Hneg]]]. destruct i as [|i]. cbn in Hnz. lia.
        exists i. cbn [length nth] in *. split. lia. split. exact Hnz.
        intros [Hidx Hv]. apply Hneg. split. lia. exact Hv.
    + apply Z.eqb_neq in Eb. destruct r as [|c r'].
      * split.
        -- intros H. exists 0%nat. cbn [length nth]. split. lia. split. exact Eb.
           intros [_ Hv]. apply Bool.negb_true_iff in H. apply Z.eqb_neq in H. contradiction.
        -- intros [i [Hi [Hnz Hneg]]]. cbn [length] in Hi. assert (i = 0%nat) by lia. subst i.
           cbn [nth length] in *. apply Bool.negb_true_iff. apply Z.eqb_neq. intro Hv. apply Hneg. split. lia. exact Hv.
      * split. 2: reflexivity.
        intros _. exists 0%nat. cbn [length nth]. split. lia. split. exact Eb. intros [Hidx _]. lia.
Qed.

(* ------------------------------------------------------------ ConditionStack refines list bool *)
Fixpoint first_false (l : list bool) (i : Z) : Z :=
  match l with [] => NO_FALSE | b :: r => if b then first_false r (i + 1) else i end.
(* [l] lists the open conditionals oldest first *)
Definition cs_of (l : list bool) : condstack := {| cs_size := Z.of_nat (length l); cs_ffp := first_false l 0 |}.

Lemma first_false_range l i : 0 <= i -> i + Z.of_nat (length l) < NO_FALSE ->
  first_false l i = NO_FALSE \/ (i <= first_false l i < i + Z.of_nat (length l)).
Proof.
  revert i; induction l as [|b r IH]; intros i Hi Hlen; cbn [first_false length] in *. left; reflexivity.
  destruct b.
  - destruct (IH (i + 1) ltac:(lia) ltac:(lia)) as [H|H]. left; exact H. right; lia.
  - right. lia.
Qed.

Lemma first_false_all_true l i : 0 <= i -> i + Z.of_nat (length l) < NO_FALSE ->
  (first_false l i = NO_FALSE <-> forallb (fun b => b) l = true).
Proof.
  revert i; induction l as [|b r IH]; intros i Hi Hlen; cbn [first_false length forallb] in *. tauto.
  destruct b; cbn [andb]. apply IH; lia. split. unfold NO_FALSE in *. lia. discriminate.
Qed.

Lemma first_false_app l x i : 0 <= i -> i + Z.of_nat (length l) + 1 < NO_FALSE ->
  first_false (l ++ [x]) i =
  if first_false l i =? NO_FALSE then (if x then NO_FALSE else i + Z.of_nat (length l)) else first_false l i.
Proof.
  revert i; induction l as [|b r IH]; intros i Hi Hlen; cbn [app first_false length] in *.
  - rewrite Z.eqb_refl. destruct x. reflexivity. lia.
  - destruct b.
    + rewrite IH by lia. destruct (first_false r (i + 1) =? NO_FALSE); try reflexivity. destruct x; try reflexivity. lia.
    + replace (i =? NO_FALSE) with false. reflexivity. symmetry. apply Z.eqb_neq. unfold NO_FALSE in *. lia.
Qed.

Definition cs_small (l : list bool) : Prop := Z.of_nat (length l) + 1 < NO_FALSE.

Theorem cs_push_refines l f : cs_small l -> cs_push (cs_of l) f = cs_of (l ++ [f]).
Proof.
  intros Hs. unfold cs_small in Hs. unfold cs_push, cs_of. cbn [cs_size cs_ffp]. rewrite app_length. cbn [length].
  f_equal. lia. rewrite first_false_app by lia. destruct (first_false l 0 =? NO_FALSE) eqn:E; cbn [andb]; destruct f; cbn [negb]; try apply Z.eqb_eq in E; lia.
Qed.

Ltac eqb_cases := repeat (match goal with
  | |- context [?a =? ?b] => destruct (Z.eqb_spec a b)
  | H : context [?a =? ?b] |- _ => destruct (Z.eqb_spec a b)
  end).

Theorem cs_pop_refines l f : cs_small l -> cs_pop (cs_of (l ++ [f])) = cs_of l.
Proof.
  intros Hs. unfold cs_small in Hs. unfold cs_pop, cs_of. cbn [cs_size cs_ffp]. rewrite app_length. cbn [length].
  replace (Z.of_nat (length l + 1) - 1) with (Z.of_nat (length l)) by lia. f_equal.
  rewrite first_false_app by lia.
  pose proof (first_false_range l 0 ltac:(lia) ltac:(lia)) as Hr.
  destruct f; eqb_cases; unfold NO_FALSE in *; lia.
Qed.

Theorem cs_toggle_refines l f : cs_small l -> cs_toggle (cs_of (l ++ [f])) = cs_of (l ++ [negb f]).
Proof.
  intros Hs. unfold cs_small in Hs. unfold cs_toggle, cs_of. cbn [cs_size cs_ffp]. rewrite !app_length. cbn [length].
  rewrite !first_false_app by lia.
  replace (Z.of_nat (length l + 1) - 1) with (Z.of_nat (length l)) by lia.
  pose proof (first_false_range l 0 ltac:(lia) ltac:(lia)) as Hr.
  destruct f; cbn [negb]; eqb_cases; try reflexivity; try (f_equal; unfold NO_FALSE in *; lia); unfold NO_FALSE in *; lia.
Qed.

Theorem cs_all_true_refines l : cs_small l -> cs_all_true (cs_of l) = spec_cond_all_true l.
Proof.
  intros Hs. unfold cs_small in Hs. unfold cs_all_true, cs_of, spec_cond_all_true. cbn [cs_ffp].
  pose proof (first_false_all_true l 0 ltac:(lia) ltac:(lia)) as Hiff.
  destruct (forallb (fun b => b) l) eqn:E.
  - destruct Hiff as [_ H2]. rewrite (H2 eq_refl). apply Z.eqb_refl.
  - destruct (first_false l 0 =? NO_FALSE) eqn:E2; auto. apply Z.eqb_eq in E2. destruct Hiff as [H1 _]. specialize (H1 E2). discriminate.
Qed.

Theorem cs_empty_refines l : cs_empty (cs_of l) = match l with [] => true | _ => false end.
Proof. unfold cs_empty, cs_of. cbn [cs_size]. destruct l; cbn [length]. reflexivity. lia. Qed.

(* the displayed bits (vfexec command): at(i) is true for positions below the first false; in particular it
   is exact for every position up to and including the first false one *)
Theorem cs_at_refines l i : cs_small l -> (i < length l)%nat ->
  (forall j, (j < i)%nat -> nth j l true = true) -> cs_at (cs_of l) (Z.of_nat i) = nth i l true.
Proof.
  intros Hs Hi Hpre. unfold cs_at, cs_of. cbn [cs_ffp].
  assert (G: forall (l : list bool) (k : Z) (i : nat), 0 <= k -> k + Z.of_nat (length l) + 1 < NO_FALSE -> (i < length l)%nat ->
             (forall j, (j < i)%nat -> nth j l true = true) -> (k + Z.of_nat i <? first_false l k) = nth i l true).
  { clear. induction l as [|b r IH]; intros k i Hk Hlen Hi Hpre; cbn [length] in *. lia.
    cbn [first_false]. destruct i as [|i].
    - cbn [nth]. destruct b.
      + destruct (first_false_range r (k + 1) ltac:(lia) ltac:(lia)) as [H|H]; rewrite ?H; unfold NO_FALSE in *; lia.
      + lia.
    - assert (Hb: b = true). { specialize (Hpre 0%nat ltac:(lia)). exact Hpre. } subst b. cbn [nth].
      replace (k + Z.of_nat (S i)) with ((k + 1) + Z.of_nat i) by lia. apply IH; try lia.
      intros j Hj. specialize (Hpre (S j) ltac:(lia)). exact Hpre. }
  unfold cs_small in Hs. specialize (G l 0 i ltac:(lia) ltac:(lia) Hi Hpre). rewrite Z.add_0_l in G. exact G.
Qed.

(* ------------------------------------------------------------ CheckMinimalPush *)
Lemma zlen_nonneg (l : bytes) : 0 <= zlen l. Proof. unfold zlen. lia. Qed.

Theorem check_minimal_push_spec data opcode : zlen data <= 65535 ->
  (check_minimal_push data opcode = true <-> spec_minimal_push data opcode).
Proof.
  intros Hlen. unfold check_minimal_push, spec_minimal_push. fold (zlen data).
  pose proof (zlen_nonneg data) as Hn.
  change OP_0 with 0. change OP_PUSHDATA1 with 76. change OP_PUSHDATA2 with 77.
  destruct (zlen data =? 0) eqn:E0.
  { apply Z.eqb_eq in E0. rewrite E0. split. intros H. apply Z.eqb_eq in H. repeat split; intros; try lia. intros [H _]. apply Z.eqb_eq. apply H. reflexivity. }
  apply Z.eqb_neq in E0.
  destruct ((zlen data =? 1) && (1 <=? hd 0 data) && (hd 0 data <=? 16)) eqn:E1.
  { split. discriminate. intros [_ [H _]]. exfalso. apply H; lia. }
  destruct ((zlen data =? 1) && (hd 0 data =? 129)) eqn:E2.
  { split. discriminate. intros [_ [_ [H _]]]. exfalso. apply H; lia. }
  destruct (zlen data <=? 75) eqn:E3.
  { split. intros H. apply Z.eqb_eq in H. repeat split; intros; try lia. intros [_ [_ [_ [H _]]]]. apply Z.eqb_eq. apply H. lia. }
  destruct (zlen data <=? 255) eqn:E4.
  { split. intros H. apply Z.eqb_eq in H. repeat split; intros; try lia. intros [_ [_ [_ [_ [H _]]]]]. apply Z.eqb_eq. apply H. lia. }
  destruct (zlen data <=? 65535) eqn:E5.
  { split. intros H. apply Z.eqb_eq in H. repeat split; intros; try lia. intros [_ [_ [_ [_ [_ H]]]]]. apply Z.eqb_eq. apply H. lia. }
  lia.
Qed.

(* ------------------------------------------------------------ numeric opcodes: generated expressions = arithmetic *)
From BV Require Import NumExpr.
From BV.Gen Require Import NumOps.

Ltac num_solve :=
  intros; unfold unary_num, binary_num, within_num;
  try match goal with |- context [nassoc ?t ?k] => let r := eval vm_compute in (nassoc t k) in change (nassoc t k) with r end;
  try unfold within_expr; cbn [neval nth]; unfold zb;
  repeat (match goal with
          | |- context [?a <? ?b] => is_var a; destruct (Z.ltb_spec a b)
          | |- context [?a <=? ?b] => is_var a; destruct (Z.leb_spec a b)
          | |- context [?a =? ?b] => is_var a; destruct (Z.eqb_spec a b)
          end; cbn [negb andb orb]; change (1 =? 0) with false; change (0 =? 0) with true; cbn [negb andb orb]);
  try reflexivity; try (f_equal; lia); try lia.

Lemma num_1add bn : unary_num OP_1ADD bn = Some (bn + 1). Proof. num_solve. Qed.
Lemma num_1sub bn : unary_num OP_1SUB bn = Some (bn - 1). Proof. num_solve. Qed.
Lemma num_negate bn : unary_num OP_NEGATE bn = Some (- bn). Proof. num_solve. Qed.
Lemma num_abs bn : unary_num OP_ABS bn = Some (Z.abs bn). Proof. num_solve. Qed.
Lemma num_not bn : unary_num OP_NOT bn = Some (if bn =? 0 then 1 else 0). Proof. num_solve. Qed.
Lemma num_0notequal bn : unary_num OP_0NOTEQUAL bn = Some (if bn =? 0 then 0 else 1). Proof. num_solve. Qed.
Lemma num_add a b : binary_num OP_ADD a b = Some (a + b). Proof. num_solve. Qed.
Lemma num_sub a b : binary_num OP_SUB a b = Some (a - b). Proof. num_solve. Qed.
Lemma num_booland a b : binary_num OP_BOOLAND a b = Some (if (a =? 0) || (b =? 0) then 0 else 1). Proof. num_solve. Qed.
Lemma num_boolor a b : binary_num OP_BOOLOR a b = Some (if (a =? 0) && (b =? 0) then 0 else 1). Proof. num_solve. Qed.
Lemma num_numequal a b : binary_num OP_NUMEQUAL a b = Some (if a =? b then 1 else 0). Proof. num_solve. Qed.
Lemma num_numequalverify a b : binary_num OP_NUMEQUALVERIFY a b = Some (if a =? b then 1 else 0). Proof. num_solve. Qed.
Lemma num_numnotequal a b : binary_num OP_NUMNOTEQUAL a b = Some (if a =? b then 0 else 1). Proof. num_solve. Qed.
Lemma num_lessthan a b : binary_num OP_LESSTHAN a b = Some (if a <? b then 1 else 0). Proof. num_solve. Qed.
Lemma num_greaterthan a b : binary_num OP_GREATERTHAN a b = Some (if b <? a then 1 else 0). Proof. num_solve. Qed.
Lemma num_lessthanorequal a b : binary_num OP_LESSTHANOREQUAL a b = Some (if a <=? b then 1 else 0). Proof. num_solve. Qed.
Lemma num_greaterthanorequal a b : binary_num OP_GREATERTHANOREQUAL a b = Some (if b <=? a then 1 else 0). Proof. num_solve. Qed.
Lemma num_min a b : binary_num OP_MIN a b = Some (Z.min a b). Proof. num_solve. Qed.
Lemma num_max a b : binary_num OP_MAX a b = Some (Z.max a b). Proof. num_solve. Qed.
Lemma num_within x lo hi : within_num x lo hi = ((lo <=? x) && (x <? hi)). Proof. num_solve. Qed.
