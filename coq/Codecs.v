(* Executable models of the text codecs used by btcdeb's value transforms:
     base58.cpp        EncodeBase58 / DecodeBase58 / EncodeBase58Check / DecodeBase58Check
     util/strencodings.h  ConvertBits<frombits,tobits,pad>
     bech32.cpp        namespace bech32: PolyMod, ExpandHRP, VerifyChecksum, CreateChecksum, Encode, Decode
     value.h           do_bech32enc / do_bech32menc / do_bech32dec (and the base58 wrappers)
   Strings are [list Z] of unsigned char codes (0..255), byte strings are [bytes = list Z].
   Definitions only; proofs live in CodecsProofs.v. *)
From BV Require Import Base.
Local Open Scope Z_scope.

(* ------------------------------------------------------------------------------------------ *)
(* generic helpers                                                                            *)

Fixpoint take_while {A} (p : A -> bool) (l : list A) : list A :=
  match l with [] => [] | x :: r => if p x then x :: take_while p r else [] end.
Fixpoint drop_while {A} (p : A -> bool) (l : list A) : list A :=
  match l with [] => [] | x :: r => if p x then drop_while p r else l end.

(* table lookup with a default for out-of-range indices *)
Definition nth_z (i : Z) (l : list Z) (d : Z) : Z :=
  if i <? 0 then d else nth (Z.to_nat i) l d.

Fixpoint list_eqb (a b : list Z) : bool :=
  match a, b with
  | [], [] => true
  | x :: a', y :: b' => (x =? y) && list_eqb a' b'
  | _, _ => false
  end.

(* util/strencodings.h IsSpace: ' ' \f \n \r \t \v *)
Definition is_space (c : Z) : bool :=
  (c =? 32) || (c =? 12) || (c =? 10) || (c =? 13) || (c =? 9) || (c =? 11).
Definition not_space (c : Z) : bool := negb (is_space c).

(* big-endian positional value, Horner form: be_value base 0 [d0;d1;...] = d0*base^(n-1) + ... *)
Fixpoint be_value (base : Z) (acc : Z) (l : list Z) : Z :=
  match l with [] => acc | d :: r => be_value base (acc * base + d) r end.

(* big-endian digits of a positive number, most significant digit first and non-zero; 0 |-> [] *)
Fixpoint be_digits (base : Z) (fuel : nat) (a : Z) (acc : list Z) : list Z :=
  match fuel with
  | O => acc
  | S f => if a <=? 0 then acc else be_digits base f (a / base) (a mod base :: acc)
  end.

(* ------------------------------------------------------------------------------------------ *)
(* Base58                                                                                     *)

(* pszBase58 = "123456789ABCDEFGHJKLMNPQRSTUVWXYZabcdefghijkmnopqrstuvwxyz" *)
Definition b58_alphabet : list Z :=
  [49; 50; 51; 52; 53; 54; 55; 56; 57; 65; 66; 67; 68; 69; 70; 71; 72; 74; 75; 76; 77; 78; 80; 81;
   82; 83; 84; 85; 86; 87; 88; 89; 90; 97; 98; 99; 100; 101; 102; 103; 104; 105; 106; 107; 109;
   110; 111; 112; 113; 114; 115; 116; 117; 118; 119; 120; 121; 122].

(* mapBase58[256], copied from base58.cpp *)
Definition b58_map : list Z :=
  [ (-1); (-1); (-1); (-1); (-1); (-1); (-1); (-1); (-1); (-1); (-1); (-1); (-1); (-1); (-1); (-1);
    (-1); (-1); (-1); (-1); (-1); (-1); (-1); (-1); (-1); (-1); (-1); (-1); (-1); (-1); (-1); (-1);
    (-1); (-1); (-1); (-1); (-1); (-1); (-1); (-1); (-1); (-1); (-1); (-1); (-1); (-1); (-1); (-1);
    (-1); 0; 1; 2; 3; 4; 5; 6; 7; 8; (-1); (-1); (-1); (-1); (-1); (-1);
    (-1); 9; 10; 11; 12; 13; 14; 15; 16; (-1); 17; 18; 19; 20; 21; (-1);
    22; 23; 24; 25; 26; 27; 28; 29; 30; 31; 32; (-1); (-1); (-1); (-1); (-1);
    (-1); 33; 34; 35; 36; 37; 38; 39; 40; 41; 42; 43; (-1); 44; 45; 46;
    47; 48; 49; 50; 51; 52; 53; 54; 55; 56; 57; (-1); (-1); (-1); (-1); (-1);
    (-1); (-1); (-1); (-1); (-1); (-1); (-1); (-1); (-1); (-1); (-1); (-1); (-1); (-1); (-1); (-1);
    (-1); (-1); (-1); (-1); (-1); (-1); (-1); (-1); (-1); (-1); (-1); (-1); (-1); (-1); (-1); (-1);
    (-1); (-1); (-1); (-1); (-1); (-1); (-1); (-1); (-1); (-1); (-1); (-1); (-1); (-1); (-1); (-1);
    (-1); (-1); (-1); (-1); (-1); (-1); (-1); (-1); (-1); (-1); (-1); (-1); (-1); (-1); (-1); (-1);
    (-1); (-1); (-1); (-1); (-1); (-1); (-1); (-1); (-1); (-1); (-1); (-1); (-1); (-1); (-1); (-1);
    (-1); (-1); (-1); (-1); (-1); (-1); (-1); (-1); (-1); (-1); (-1); (-1); (-1); (-1); (-1); (-1);
    (-1); (-1); (-1); (-1); (-1); (-1); (-1); (-1); (-1); (-1); (-1); (-1); (-1); (-1); (-1); (-1);
    (-1); (-1); (-1); (-1); (-1); (-1); (-1); (-1); (-1); (-1); (-1); (-1); (-1); (-1); (-1); (-1) ].

(* pszBase58[d] *)
Definition b58_char (d : Z) : Z := nth_z d b58_alphabet 0.
(* mapBase58[(uint8_t)c]; characters outside 0..255 cannot occur in a std::string and are treated as
   invalid *)
Definition b58_digit (c : Z) : Z := nth_z c b58_map (-1).

Fixpoint b58_digits_of (s : list Z) : option (list Z) :=
  match s with
  | [] => Some []
  | c :: r =>
      let d := b58_digit c in
      if d <? 0 then None
      else match b58_digits_of r with None => None | Some ds => Some (d :: ds) end
  end.

(* EncodeBase58, modelled with [Z] arithmetic: the leading zero bytes become '1's, the remaining bytes
   are read as one big-endian number whose base-58 digits (most significant first, no leading zero) are
   emitted.  This is PROVABLY the function computed by the C++ digit-array loops:
   [base58_encode_loops] below transliterates the loops (array b58 of size n*138/100+1, inner carry
   loop, assert(carry == 0), skipping of leading zero digits) and CodecsProofs.v proves
   [base58_encode_loops_correct : bytes_ok b -> base58_encode_loops b = Some (base58_encode b)]
   (in particular the assert never fires: 256^n <= 58^(n*138/100+1)).  Both are also run against
   the real code. *)
Definition base58_encode (b : bytes) : list Z :=
  let zs := take_while (Z.eqb 0) b in
  let rest := drop_while (Z.eqb 0) b in
  map (fun _ => 49) zs
  ++ map b58_char (be_digits 58 (2 * length rest) (be_value 256 0 rest) []).

(* One execution of the inner for-loop shared by EncodeBase58 / DecodeBase58:
     for (it = arr.rbegin(); (carry != 0 || i < length) && it != arr.rend(); ++it, ++i)
        { carry += mul * it[0]; it[0] = carry % base; carry /= base; }
   [l] is the array seen through the reverse iterator (least significant digit first).
   Returns (new array, final carry, final i). *)
Fixpoint bn_pass (mul base : Z) (len : nat) (l : list Z) (carry : Z) (i : nat) : list Z * Z * nat :=
  match l with
  | [] => ([], carry, i)
  | d :: r =>
      if negb (carry =? 0) || (i <? len)%nat then
        let c := carry + mul * d in
        let '(r', c', i') := bn_pass mul base len r (c / base) (S i) in
        ((c mod base) :: r', c', i')
      else (l, carry, i)
  end.

(* the outer while-loop: None = assert(carry == 0) failed *)
Fixpoint bn_loop (mul base : Z) (input : list Z) (arr : list Z) (len : nat) : option (list Z * nat) :=
  match input with
  | [] => Some (arr, len)
  | x :: r =>
      let '(arr', c, i) := bn_pass mul base len arr x 0%nat in
      if c =? 0 then bn_loop mul base r arr' i else None
  end.

(* direct transliteration of EncodeBase58 (None = the assert fired) *)
Definition base58_encode_loops (b : bytes) : option (list Z) :=
  let zs := take_while (Z.eqb 0) b in
  let rest := drop_while (Z.eqb 0) b in
  let size := Z.to_nat (Z.of_nat (length rest) * 138 / 100 + 1) in
  match bn_loop 256 58 rest (repeat 0 size) 0%nat with
  | None => None
  | Some (arr, len) =>
      (* it = b58.begin() + (size - length): the last [len] digits, most significant first *)
      let digits := rev (firstn len arr) in
      Some (map (fun _ => 49) zs ++ map b58_char (drop_while (Z.eqb 0) digits))
  end.

(* DecodeBase58(const std::string&, vch, max_ret_len), modelled with [Z] arithmetic.
   Order of events in the C++ (every failure is the same [return false], vch untouched):
     - ContainsNoNUL(str)
     - skip leading IsSpace characters
     - count leading '1's (zeroes), failing as soon as zeroes > max_ret_len
     - consume characters up to the first NUL/IsSpace: an invalid character fails; after every
       character, fail if length + zeroes > max_ret_len (length = bytes used so far, non-decreasing)
     - skip IsSpace characters; anything left fails
     - result = zeroes zero bytes followed by the [length] least significant bytes of b256.
   The Z model below is PROVABLY equal to the loops: [base58_decode_loops] transliterates them (array
   b256 of size strlen*733/1000+1, inner carry loop, assert, per-character length check) and
   CodecsProofs.v proves [base58_decode_loops_correct : base58_decode_loops s n = base58_decode s n]
   for every input (the assert never fires: 58^k <= 256^(k*733/1000+1); [length] is always the
   minimal byte length of the number read so far, hence non-decreasing, so the per-character check
   is equivalent to one final check).  Both are also run against the real code. *)
Definition base58_decode (s : list Z) (max_ret_len : nat) : option bytes :=
  if existsb (Z.eqb 0) s then None else
  let s1 := drop_while is_space s in
  let ones := take_while (Z.eqb 49) s1 in
  let s2 := drop_while (Z.eqb 49) s1 in
  let body := take_while not_space s2 in
  let s3 := drop_while not_space s2 in
  match b58_digits_of body with
  | None => None
  | Some ds =>
      if negb (forallb is_space s3) then None else
      let out := be_digits 256 (length ds) (be_value 58 0 ds) [] in
      if (length ones + length out <=? max_ret_len)%nat
      then Some (map (fun _ => 0) ones ++ out) else None
  end.

(* transliteration of the character loop of DecodeBase58 *)
Fixpoint b58dec_loop (s : list Z) (arr : list Z) (len zeroes max_ret_len : nat)
  : option (list Z * nat * list Z) :=
  match s with
  | [] => Some (arr, len, [])
  | ch :: r =>
      if is_space ch then Some (arr, len, s) else
      let d := b58_digit ch in
      if d <? 0 then None else
      let '(arr', c, i) := bn_pass 58 256 len arr d 0%nat in
      if negb (c =? 0) then None (* assert *) else
      if (max_ret_len <? i + zeroes)%nat then None else
      b58dec_loop r arr' i zeroes max_ret_len
  end.

Definition base58_decode_loops (s : list Z) (max_ret_len : nat) : option bytes :=
  if existsb (Z.eqb 0) s then None else
  let s1 := drop_while is_space s in
  let ones := take_while (Z.eqb 49) s1 in
  let s2 := drop_while (Z.eqb 49) s1 in
  let zeroes := length ones in
  (* the check inside the '1' loop: equivalent to testing the final count *)
  if (max_ret_len <? zeroes)%nat then None else
  let size := Z.to_nat (Z.of_nat (length s2) * 733 / 1000 + 1) in
  match b58dec_loop s2 (repeat 0 size) 0%nat zeroes max_ret_len with
  | None => None
  | Some (arr, len, s3) =>
      if negb (forallb is_space s3) then None else
      Some (repeat 0 zeroes ++ rev (firstn len arr))
  end.

(* EncodeBase58Check / DecodeBase58Check, parameterised by hash256 (double SHA-256, 32 bytes) *)
Definition base58check_encode (hash256 : bytes -> bytes) (b : bytes) : list Z :=
  base58_encode (b ++ firstn 4 (hash256 b)).

(* max_ret_len + 4 (the C++ clamps at INT_MAX; irrelevant for [nat]).  On failure the C++ clears
   vchRet. *)
Definition base58check_decode (hash256 : bytes -> bytes) (s : list Z) (max_ret_len : nat)
  : option bytes :=
  match base58_decode s (max_ret_len + 4) with
  | None => None
  | Some v =>
      if (length v <? 4)%nat then None else
      let payload := firstn (length v - 4) v in
      if list_eqb (firstn 4 (hash256 payload)) (skipn (length v - 4) v) then Some payload else None
  end.

(* ------------------------------------------------------------------------------------------ *)
(* ConvertBits<frombits, tobits, pad>                                                         *)

(* while (bits >= tobits) { bits -= tobits; outfn((acc >> bits) & maxv); }   -- [out] is reversed *)
Fixpoint cb_flush (fuel : nat) (tobits maxv acc bits : Z) (out : list Z) : Z * list Z :=
  match fuel with
  | O => (bits, out)
  | S f =>
      if tobits <=? bits then
        let bits' := bits - tobits in
        cb_flush f tobits maxv acc bits' (Z.land (Z.shiftr acc bits') maxv :: out)
      else (bits, out)
  end.

(* the main while-loop; result (ok, acc, bits, reversed output); ok = false when infn( *it ) < 0 *)
Fixpoint cb_loop (frombits tobits maxv max_acc : Z) (input : list Z) (acc bits : Z) (out : list Z)
  : bool * Z * Z * list Z :=
  match input with
  | [] => (true, acc, bits, out)
  | v :: r =>
      if v <? 0 then (false, acc, bits, out) else
      let acc' := Z.land (Z.lor (Z.shiftl acc frombits) v) max_acc in
      let bits1 := bits + frombits in
      let '(bits', out') := cb_flush (S (Z.to_nat (bits1 / tobits))) tobits maxv acc' bits1 out in
      cb_loop frombits tobits maxv max_acc r acc' bits' out'
  end.

(* returns (return value of ConvertBits, everything passed to outfn) -- callers in value.h ignore the
   return value of the <8,5,true> instance and keep the emitted output of the <5,8,false> one *)
Definition convert_bits_run (frombits tobits : Z) (pad : bool) (input : list Z) : bool * list Z :=
  let maxv := Z.shiftl 1 tobits - 1 in
  let max_acc := Z.shiftl 1 (frombits + tobits - 1) - 1 in
  let '(ok, acc, bits, out) := cb_loop frombits tobits maxv max_acc input 0 0 [] in
  if negb ok then (false, rev out) else
  let last := Z.land (Z.shiftl acc (tobits - bits)) maxv in
  if pad then
    (true, rev (if bits =? 0 then out else last :: out))
  else if (frombits <=? bits) || negb (last =? 0) then (false, rev out)
  else (true, rev out).

Definition convert_bits (frombits tobits : Z) (pad : bool) (input : list Z) : option (list Z) :=
  let '(ok, out) := convert_bits_run frombits tobits pad input in
  if ok then Some out else None.

(* ------------------------------------------------------------------------------------------ *)
(* Bech32 / Bech32m                                                                           *)

(* CHARSET = "qpzry9x8gf2tvdw0s3jn54khce6mua7l" *)
Definition bech32_charset : list Z :=
  [113; 112; 122; 114; 121; 57; 120; 56; 103; 102; 50; 116; 118; 100; 119; 48; 115; 51; 106; 110;
   53; 52; 107; 104; 99; 101; 54; 109; 117; 97; 55; 108].

(* CHARSET_REV[128], copied from bech32.cpp *)
Definition bech32_charset_rev : list Z :=
  [ (-1); (-1); (-1); (-1); (-1); (-1); (-1); (-1); (-1); (-1); (-1); (-1); (-1); (-1); (-1); (-1);
    (-1); (-1); (-1); (-1); (-1); (-1); (-1); (-1); (-1); (-1); (-1); (-1); (-1); (-1); (-1); (-1);
    (-1); (-1); (-1); (-1); (-1); (-1); (-1); (-1); (-1); (-1); (-1); (-1); (-1); (-1); (-1); (-1);
    15; (-1); 10; 17; 21; 20; 26; 30; 7; 5; (-1); (-1); (-1); (-1); (-1); (-1);
    (-1); 29; (-1); 24; 13; 25; 9; 8; 23; (-1); 18; 22; 31; 27; 19; (-1);
    1; 0; 3; 16; 11; 28; 12; 14; 6; 4; 2; (-1); (-1); (-1); (-1); (-1);
    (-1); 29; (-1); 24; 13; 25; 9; 8; 23; (-1); 18; 22; 31; 27; 19; (-1);
    1; 0; 3; 16; 11; 28; 12; 14; 6; 4; 2; (-1); (-1); (-1); (-1); (-1) ].

(* CHARSET[d]; d >= 32 is an out-of-bounds read in the C++ (modelled as 0) *)
Definition bech32_char (d : Z) : Z := nth_z d bech32_charset 0.
(* CHARSET_REV[c]; only reached for 33 <= c <= 126 *)
Definition bech32_rev (c : Z) : Z := nth_z c bech32_charset_rev (-1).

Definition bsel (b : bool) (g : Z) : Z := if b then g else 0.

(* one iteration of the PolyMod loop; c is a uint32_t that stays below 2^30 *)
Definition bech32_step (c v : Z) : Z :=
  let c0 := Z.shiftr c 25 in
  Z.lxor (Z.lxor (Z.lxor (Z.lxor (Z.lxor (Z.lxor
    (Z.shiftl (Z.land c 0x1ffffff) 5) v)
    (bsel (Z.testbit c0 0) 0x3b6a57b2))
    (bsel (Z.testbit c0 1) 0x26508e6d))
    (bsel (Z.testbit c0 2) 0x1ea119fa))
    (bsel (Z.testbit c0 3) 0x3d4233dd))
    (bsel (Z.testbit c0 4) 0x2a1462b3).

Definition bech32_polymod_from (c : Z) (v : list Z) : Z := fold_left bech32_step v c.
Definition bech32_polymod (v : list Z) : Z := bech32_polymod_from 1 v.

Definition bech32_lower (c : Z) : Z := if (65 <=? c) && (c <=? 90) then c - 65 + 97 else c.

Definition bech32_expand_hrp (hrp : list Z) : list Z :=
  map (fun c => Z.shiftr c 5) hrp ++ 0 :: map (fun c => Z.land c 31) hrp.

(* Encoding: 0 = INVALID, 1 = BECH32, 2 = BECH32M *)
Definition BECH32M_CONST : Z := 0x2bc830a3.
Definition bech32_const (enc : Z) : Z := if enc =? 1 then 1 else BECH32M_CONST.

Definition bech32_verify_checksum (hrp values : list Z) : Z :=
  let check := bech32_polymod (bech32_expand_hrp hrp ++ values) in
  if check =? 1 then 1 else if check =? BECH32M_CONST then 2 else 0.

Definition bech32_create_checksum (enc : Z) (hrp values : list Z) : list Z :=
  let m := Z.lxor (bech32_polymod (bech32_expand_hrp hrp ++ values ++ [0; 0; 0; 0; 0; 0]))
                  (bech32_const enc) in
  map (fun i => Z.land (Z.shiftr m (5 * (5 - i))) 31) [0; 1; 2; 3; 4; 5].

(* bech32::Encode.  Preconditions of the C++: no character of hrp in 'A'..'Z' (assert), every value
   below 32 (otherwise CHARSET[c] reads out of bounds). *)
Definition bech32_encode (enc : Z) (hrp values : list Z) : list Z :=
  hrp ++ 49 :: map bech32_char (values ++ bech32_create_checksum enc hrp values).

(* CheckCharacters: state (lower, upper, no error so far) *)
Definition cc_step (st : bool * bool * bool) (c : Z) : bool * bool * bool :=
  let '(lower, upper, ok) := st in
  if (97 <=? c) && (c <=? 122) then (if upper then (lower, upper, false) else (true, upper, ok))
  else if (65 <=? c) && (c <=? 90) then (if lower then (lower, upper, false) else (lower, true, ok))
  else if (c <? 33) || (126 <? c) then (lower, upper, false)
  else st.
Definition bech32_check_characters (s : list Z) : bool :=
  let '(_, _, ok) := fold_left cc_step s (false, false, true) in ok.

(* str.rfind(c) *)
Fixpoint rfind_aux (c : Z) (s : list Z) (i : nat) (found : option nat) : option nat :=
  match s with
  | [] => found
  | x :: r => rfind_aux c r (S i) (if x =? c then Some i else found)
  end.
Definition rfind (c : Z) (s : list Z) : option nat := rfind_aux c s 0%nat None.

Fixpoint bech32_values_of (s : list Z) : option (list Z) :=
  match s with
  | [] => Some []
  | c :: r =>
      let d := bech32_rev c in
      if d <? 0 then None
      else match bech32_values_of r with None => None | Some ds => Some (d :: ds) end
  end.

(* bech32::Decode: None = DecodeResult{} (Encoding::INVALID) *)
Definition bech32_decode (str : list Z) : option (Z * list Z * list Z) :=
  if negb (bech32_check_characters str) then None else
  match rfind 49 str with
  | None => None
  | Some pos =>
      let n := length str in
      if (90 <? n)%nat || (pos =? 0)%nat || (n <? pos + 7)%nat then None else
      match bech32_values_of (skipn (S pos) str) with
      | None => None
      | Some values =>
          let hrp := map bech32_lower (firstn pos str) in
          let enc := bech32_verify_checksum hrp values in
          if enc =? 0 then None
          else Some (enc, hrp, firstn (length values - 6) values)
      end
  end.

(* ------------------------------------------------------------------------------------------ *)
(* value.h                                                                                    *)

(* value.cpp: std::string bech32_hrp = "bcrt" (tap.cpp may override it with -p) *)
Definition default_bech32_hrp : list Z := [98; 99; 114; 116].

(* do_bech32enc (m = false) / do_bech32menc (m = true): str after the call, data = data_value().
   tmp = {1}; ConvertBits<8,5,true>(push_back, data) (return value ignored); Encode(enc, hrp, tmp) *)
Definition value_bech32_enc (m : bool) (hrp data : list Z) : list Z :=
  let '(_, v) := convert_bits_run 8 5 true data in
  bech32_encode (if m then 2 else 1) hrp (1 :: v).

(* do_bech32dec on a T_STRING value *)
Inductive bech32dec_outcome : Type :=
| B32Failed   (* Decode returned INVALID: message on stderr, value left untouched (still T_STRING) *)
| B32UB       (* Decode succeeded with an EMPTY data part (e.g. "a12uel5l"): [bech[0]] and
                 [bech.begin() + 1] are out of bounds -- undefined behaviour *)
| B32Data (conv_ok : bool) (enc : Z) (hrp : list Z) (version : Z) (data : bytes).
              (* type = T_DATA; data = every byte ConvertBits<5,8,false> emitted over bech[1..]; when
                 ConvertBits returns false (conv_ok = false: >= 5 leftover bits or non-zero padding)
                 the function falls out of the if and KEEPS those bytes; no error is reported.  The
                 version / size tests that follow only print a warning and never change data. *)

Definition value_bech32_dec_full (str : list Z) : bech32dec_outcome :=
  match bech32_decode str with
  | None => B32Failed
  | Some (enc, hrp, bech) =>
      match bech with
      | [] => B32UB
      | version :: rest =>
          let '(ok, data) := convert_bits_run 5 8 false rest in
          B32Data ok enc hrp version data
      end
  end.

(* just the data bytes do_bech32dec leaves (None = value unchanged or undefined behaviour) *)
Definition value_bech32_dec (str : list Z) : option bytes :=
  match value_bech32_dec_full str with
  | B32Data _ _ _ _ data => Some data
  | _ => None
  end.

(* do_base58enc / do_base58dec / do_base58chkenc / do_base58chkdec use max_ret_len = 200 *)
Definition value_base58_dec (s : list Z) : option bytes := base58_decode s 200.
Definition value_base58chk_dec (hash256 : bytes -> bytes) (s : list Z) : option bytes :=
  base58check_decode hash256 s 200.
