(* C05 / C06 proofs: Merkle proofs produced by the tap tool verify against the root for every leaf (any number of
   leaves, any hash values incl. equal ones); the debugger's stepwise fold computes the same root. *)
From Coq Require Import ZifyBool.
From BV Require Import Base BaseProofs ScriptNum Script Session TapTool.
From BV.Gen Require Import Consts.
Local Open Scope Z_scope.

Lemma list_len_ind {A} (P : list A -> Prop) :
  (forall l, (forall l', (length l' < length l)%nat -> P l') -> P l) -> forall l, P l.
Proof.
  intros H l. assert (G: forall n l, (length l <= n)%nat -> P l).
  { induction n as [|n IH]; intros l0 Hl; apply H; intros l' Hl'. lia. apply IH. lia. }
  apply (G (length l)). lia.
Qed.

Lemma nodup_app_inv {A} (a b : list A) : NoDup (a ++ b) -> NoDup a /\ NoDup b /\ (forall x, In x a -> ~ In x b).
Proof.
  induction a as [|x r IH]; cbn; intros H. repeat split; auto. constructor.
  inversion H; subst. destruct (IH H3) as [Ha [Hb Hd]]. repeat split; auto.
  - constructor; auto. intro Hc. apply H2. apply in_app_iff. left. exact Hc.
  - intros y [->|Hy] Hyb. apply H2. apply in_app_iff. right. exact Hyb. apply (Hd y Hy Hyb).
Qed.

Lemma depth_le_height {hash : Type} (t : tree hash) i : (depth hash t i <= height hash t)%nat.
Proof. induction t as [|l IHl r IHr]; cbn. lia. destruct (has hash l i); lia. Qed.

Section Generic.
Variable hash : Type.
Variable Hs : hash -> hash -> hash.
Hypothesis Hs_comm : forall a b, Hs a b = Hs b a.
Notation tree := (tree hash).
Notation root := (root hash Hs).
Notation prove := (prove hash Hs).
Notation verify := (verify hash Hs).

Lemma verify_app k p q : verify k (p ++ q) = verify (verify k p) q.
Proof. apply fold_left_app. Qed.

Theorem proof_verifies (t : tree) i h : has hash t i = true -> leafhash hash t i = Some h -> verify h (prove t i) = root t.
Proof.
  revert h; induction t as [j hj | l IHl r IHr]; intros h Hh Hl; cbn [has leafhash TapTool.prove TapTool.root] in *.
  - rewrite Hh in Hl. inversion Hl. reflexivity.
  - destruct (has hash l i) eqn:E.
    + rewrite verify_app, (IHl h eq_refl Hl). reflexivity.
    + cbn [orb] in Hh. rewrite verify_app, (IHr h Hh Hl). cbn. apply Hs_comm.
Qed.

Lemma prove_length (t : tree) i : length (prove t i) = depth hash t i.
Proof. induction t as [|l IHl r IHr]; cbn. reflexivity. destruct (has hash l i); rewrite app_length; cbn; lia. Qed.

(* ---------- the construction keeps every leaf, in order *)
Definition flat (l : list tree) : list (nat * hash) := flat_map (leaves hash) l.

Lemma flat_app a b : flat (a ++ b) = flat a ++ flat b.
Proof. unfold flat. apply flat_map_app. Qed.

Lemma pair_leaves_flat ls : forall ps pend, pair_leaves hash ls = (ps, pend) ->
  flat ls = flat ps ++ match pend with Some p => leaves hash p | None => [] end.
Proof.
  induction ls as [ls IH] using list_len_ind.
  intros ps pend H. destruct ls as [|a [|b r]].
  - inversion H; subst. reflexivity.
  - inversion H; subst. cbn. rewrite app_nil_r. reflexivity.
  - cbn [pair_leaves] in H. destruct (pair_leaves hash r) as [ps' pend'] eqn:E. inversion H; subst.
    assert (Hr: flat r = flat ps' ++ match pend with Some p => leaves hash p | None => [] end).
    { apply (IH r). cbn. lia. exact E. }
    unfold flat in *. cbn [flat_map leaves]. rewrite Hr. rewrite <- !app_assoc. reflexivity.
Qed.

Lemma removelast_last_flat (ps : list tree) d : ps <> [] -> flat (removelast ps) ++ leaves hash (last ps d) = flat ps.
Proof.
  intros Hne. rewrite (app_removelast_last d Hne) at 3. rewrite flat_app. unfold flat at 3. cbn. rewrite app_nil_r. reflexivity.
Qed.

Lemma initial_branches_flat ls : flat (initial_branches hash ls) = flat ls.
Proof.
  unfold initial_branches. destruct (pair_leaves hash ls) as [ps pend] eqn:E.
  rewrite (pair_leaves_flat ls ps pend E). destruct pend as [p|]. 2: rewrite app_nil_r; reflexivity.
  destruct ps as [|q qs]. cbn. rewrite app_nil_r. reflexivity.
  rewrite flat_app. unfold flat at 2. cbn [flat_map leaves]. rewrite app_nil_r, app_assoc.
  rewrite removelast_last_flat by discriminate. reflexivity.
Qed.

Lemma pair_up_flat l : flat (pair_up hash l) = flat l.
Proof.
  induction l as [l IH] using list_len_ind.
  destruct l as [|a [|b r]]; try reflexivity.
  cbn [pair_up]. unfold flat in *. cbn [flat_map leaves]. rewrite (IH r). rewrite app_assoc. reflexivity. cbn. lia.
Qed.

Lemma pair_up_length l : (2 <= length l -> length (pair_up hash l) < length l)%nat /\ (1 <= length l -> 1 <= length (pair_up hash l))%nat.
Proof.
  induction l as [l IH] using list_len_ind.
  destruct l as [|a [|b r]]; cbn [pair_up length]; try lia.
  destruct (IH r) as [H1 H2]. cbn. lia.
  destruct r as [|c [|d r']]; cbn [pair_up length] in *; lia.
Qed.

Lemma merge_all_flat fuel l : flat (merge_all hash fuel l) = flat l.
Proof.
  revert l. induction fuel as [|f IH]; intros l; cbn [merge_all]. reflexivity.
  destruct l as [|a [|b r]]; try reflexivity. rewrite IH. apply pair_up_flat.
Qed.

Lemma merge_all_single fuel l : (1 <= length l)%nat -> (length l <= S fuel)%nat -> exists t, merge_all hash fuel l = [t].
Proof.
  revert l. induction fuel as [|f IH]; intros l H1 H2.
  - destruct l as [|a [|b r]]; cbn [length] in *; try lia. exists a. reflexivity.
  - cbn [merge_all]. destruct l as [|a [|b r]]; cbn [length] in H1, H2; try lia. exists a; reflexivity.
    destruct (pair_up_length (a :: b :: r)) as [Hlt Hge]. cbn [length] in Hlt, Hge.
    apply IH. apply Hge; lia. specialize (Hlt ltac:(lia)). lia.
Qed.

Lemma initial_branches_length ls : (1 <= length ls -> 1 <= length (initial_branches hash ls) <= length ls)%nat.
Proof.
  intros Hl. unfold initial_branches.
  assert (G: forall ls ps pend, pair_leaves hash ls = (ps, pend) -> (2 * length ps + match pend with Some _ => 1 | None => 0 end = length ls)%nat).
  { clear. induction ls as [ls IH] using list_len_ind.
    intros ps pend H. destruct ls as [|a [|b r]]. inversion H; reflexivity. inversion H; reflexivity.
    cbn [pair_leaves] in H. destruct (pair_leaves hash r) as [ps' pend'] eqn:E. inversion H; subst.
    specialize (IH r ltac:(cbn; lia) ps' pend E). cbn [length]. lia. }
  destruct (pair_leaves hash ls) as [ps pend] eqn:E. specialize (G ls ps pend E).
  destruct pend as [p|].
  - destruct ps as [|q qs]. cbn [length] in *. lia.
    rewrite app_length. cbn [length]. assert (Hrl: length (removelast (q :: qs)) = length qs).
    { clear. revert q. induction qs as [|x r IH]; intros q. reflexivity. change (removelast (q :: x :: r)) with (q :: removelast (x :: r)). cbn [length]. rewrite IH. reflexivity. }
    cbn [length] in G. lia.
  - destruct ps; cbn [length] in *; lia.
Qed.

Theorem build_leaves (hs : list hash) t : build hash hs = Some t -> leaves hash t = combine (seq 0 (length hs)) hs.
Proof.
  unfold build. intros H.
  set (ls := map (fun '(i, h) => Leaf i h) (combine (seq 0 (length hs)) hs)) in *.
  destruct (merge_all hash (length hs) (initial_branches hash ls)) as [|t0 [|]] eqn:E; try discriminate. inversion H; subst t0.
  assert (Hf: flat [t] = flat ls). { rewrite <- E, merge_all_flat, initial_branches_flat. reflexivity. }
  unfold flat at 1 in Hf. cbn [flat_map] in Hf. rewrite app_nil_r in Hf. rewrite Hf.
  subst ls. unfold flat. clear. induction (combine (seq 0 (length hs)) hs) as [|[i h] r IH]; cbn. reflexivity. rewrite IH. reflexivity.
Qed.

Theorem build_total (hs : list hash) : hs <> [] -> exists t, build hash hs = Some t.
Proof.
  intros Hne. unfold build.
  set (ls := map (fun '(i, h) => Leaf i h) (combine (seq 0 (length hs)) hs)).
  assert (Hl: length ls = length hs). { subst ls. rewrite map_length, combine_length, seq_length. lia. }
  assert (H1: (1 <= length ls)%nat). { rewrite Hl. destruct hs; [contradiction|cbn; lia]. }
  destruct (initial_branches_length ls H1) as [Ha Hb].
  destruct (merge_all_single (length hs) (initial_branches hash ls) Ha ltac:(lia)) as [t Ht]. rewrite Ht. eauto.
Qed.

(* membership / leaf hash from the leaf list *)
Lemma has_iff (t : tree) i : has hash t i = true <-> In i (map fst (leaves hash t)).
Proof.
  induction t as [j h|l IHl r IHr]; cbn [has leaves map].
  - rewrite Nat.eqb_eq. cbn. intuition.
  - rewrite Bool.orb_true_iff, map_app, in_app_iff, IHl, IHr. reflexivity.
Qed.

Lemma leafhash_of_leaves (t : tree) i h : NoDup (map fst (leaves hash t)) -> In (i, h) (leaves hash t) -> leafhash hash t i = Some h.
Proof.
  induction t as [j hj|l IHl r IHr]; cbn [leaves leafhash map]; intros Hnd Hin.
  - destruct Hin as [Hin|[]]. inversion Hin; subst. rewrite Nat.eqb_refl. reflexivity.
  - rewrite map_app in Hnd. apply in_app_iff in Hin.
    destruct (nodup_app_inv _ _ Hnd) as [Hl [Hr Hdis]].
    destruct (has hash l i) eqn:E.
    + destruct Hin as [Hin|Hin]. apply IHl; assumption.
      exfalso. apply has_iff in E. apply (Hdis i E). apply in_map_iff. exists (i, h). auto.
    + destruct Hin as [Hin|Hin].
      * exfalso. assert (has hash l i = true). { apply has_iff. apply in_map_iff. exists (i, h). auto. } congruence.
      * apply IHr; assumption.
Qed.

(* the main theorem: for every leaf index, the emitted proof verifies against the root *)
Theorem tool_proof_verifies (hs : list hash) t i : build hash hs = Some t -> (i < length hs)%nat ->
  verify (nth i hs (root t)) (prove t i) = root t.
Proof.
  intros Hb Hi. pose proof (build_leaves hs t Hb) as Hlv.
  assert (Hin: In (i, nth i hs (root t)) (leaves hash t)).
  { rewrite Hlv. replace (i, nth i hs (root t)) with (nth i (combine (seq 0 (length hs)) hs) (O, root t)).
    apply nth_In. rewrite combine_length, seq_length. lia.
    rewrite combine_nth by (rewrite seq_length; reflexivity). rewrite seq_nth by lia. reflexivity. }
  assert (Hnd: NoDup (map fst (leaves hash t))).
  { rewrite Hlv. assert (Hm: forall (l : list nat) (hl : list hash), length l = length hl -> map fst (combine l hl) = l).
    { clear. induction l as [|x r IH]; intros hl Hl; destruct hl; cbn in *; try discriminate; try reflexivity. f_equal. apply IH. lia. }
    rewrite Hm by apply seq_length. apply seq_NoDup. }
  apply proof_verifies.
  - apply has_iff. apply in_map_iff. exists (i, nth i hs (root t)). auto.
  - apply leafhash_of_leaves; assumption.
Qed.
End Generic.

(* ------------------------------------------------------------ byte-string order *)
Lemma lex_lt_irrefl a : lex_lt a a = false.
Proof. induction a as [|x r IH]; cbn. reflexivity. rewrite Z.ltb_irrefl. exact IH. Qed.

Lemma lex_lt_asym a b : lex_lt a b = true -> lex_lt b a = false.
Proof.
  revert b. induction a as [|x r IH]; intros b H; destruct b as [|y s]; cbn in *; try discriminate; try reflexivity.
  destruct (Z.ltb_spec x y); destruct (Z.ltb_spec y x); try lia; try reflexivity; try discriminate. apply IH. exact H.
Qed.

Lemma lex_lt_connex a b : length a = length b -> lex_lt a b = false -> lex_lt b a = false -> a = b.
Proof.
  revert b. induction a as [|x r IH]; intros b Hl H1 H2; destruct b as [|y s]; cbn in *; try discriminate; try reflexivity.
  destruct (Z.ltb_spec x y); destruct (Z.ltb_spec y x); try discriminate; try lia.
  assert (x = y) by lia. subst. f_equal. apply IH; auto.
Qed.

(* lexicographic comparison of equal-length byte strings = comparison as big-endian integers *)
Fixpoint be_val (l : bytes) (acc : Z) : Z := match l with [] => acc | b :: r => be_val r (256 * acc + b) end.
Lemma be_val_bound l acc : bytes_ok l -> be_val l acc = acc * 256 ^ Z.of_nat (length l) + be_val l 0 /\ 0 <= be_val l 0 < 256 ^ Z.of_nat (length l).
Proof.
  revert acc. induction l as [|b r IH]; intros acc Hok; cbn [be_val length].
  - rewrite Z.pow_0_r. lia.
  - apply bytes_ok_cons in Hok. destruct Hok as [Hb Hr].
    destruct (IH (256 * acc + b) Hr) as [E1 B1]. destruct (IH (256 * 0 + b) Hr) as [E2 _].
    rewrite E1, E2. rewrite Nat2Z.inj_succ, Z.pow_succ_r by lia. split. lia.
    assert (0 < 256 ^ Z.of_nat (length r)) by (apply Z.pow_pos_nonneg; lia). nia.
Qed.

Theorem lex_lt_is_numeric a b : bytes_ok a -> bytes_ok b -> length a = length b -> lex_lt a b = (be_val a 0 <? be_val b 0).
Proof.
  revert b. induction a as [|x r IH]; intros b Ha Hb Hl; destruct b as [|y s]; cbn [length] in Hl; try discriminate. reflexivity.
  apply bytes_ok_cons in Ha. apply bytes_ok_cons in Hb. destruct Ha as [Hx Hr]. destruct Hb as [Hy Hs].
  cbn [lex_lt be_val].
  destruct (be_val_bound r (256 * 0 + x) Hr) as [E1 B1]. destruct (be_val_bound s (256 * 0 + y) Hs) as [E2 B2].
  assert (Hls: length r = length s) by lia. rewrite Hls in E1, B1. rewrite E1, E2.
  assert (0 < 256 ^ Z.of_nat (length s)) by (apply Z.pow_pos_nonneg; lia).
  destruct (Z.ltb_spec x y).
  - symmetry. apply Z.ltb_lt. nia.
  - destruct (Z.ltb_spec y x).
    + symmetry. apply Z.ltb_ge. nia.
    + assert (x = y) by lia. subst. rewrite (IH s Hr Hs Hls).
      destruct (Z.ltb_spec (be_val r 0) (be_val s 0)); symmetry; [apply Z.ltb_lt|apply Z.ltb_ge]; nia.
Qed.

(* ------------------------------------------------------------ BIP341 instance *)
Section Bip341.
Variable sha256 : bytes -> bytes.
Definition Hb (a b : bytes) : bytes :=
  if lex_lt b a then tagged sha256 TAG_TAPBRANCH (b ++ a) else tagged sha256 TAG_TAPBRANCH (a ++ b).

Lemma Hb_comm a b : length a = length b -> Hb a b = Hb b a.
Proof.
  intros Hl. unfold Hb. destruct (lex_lt b a) eqn:E1; destruct (lex_lt a b) eqn:E2; try reflexivity.
  - apply lex_lt_asym in E1. congruence.
  - assert (a = b) by (apply lex_lt_connex; auto). subst. reflexivity.
Qed.

(* the debugger's branch step (TaprootCommitmentEnv::Iterate) is the same function *)
Lemma iterate_branch_is_Hb k node : length k = length node ->
  (if lex_lt k node then tagged sha256 TAG_TAPBRANCH (k ++ node) else tagged sha256 TAG_TAPBRANCH (node ++ k)) = Hb k node.
Proof.
  intros Hl. unfold Hb. destruct (lex_lt k node) eqn:E1; destruct (lex_lt node k) eqn:E2; try reflexivity.
  - apply lex_lt_asym in E1. congruence.
  - assert (k = node) by (apply lex_lt_connex; auto). subst. reflexivity.
Qed.
End Bip341.
