(* Re-enabled opcodes (StepExtended): what each computes, that invalid operands give script errors, never a crash,
   and that without the option the disabled-opcode gate fires before the executed/unexecuted test. *)
From Coq Require Import ZifyBool.
From BV Require Import Base ScriptNum Script Interp StackPictures.
From BV.Gen Require Import Consts Sites.
Local Open Scope Z_scope.

Section Ext.
Variable c : cfg.

Ltac ext H := intros; unfold step_extended; closed_ifs; stack_depth H; unfold ok, popn, pushs, stop, set_stack; rewrite ?H;
  cbn [nth skipn firstn app e_stack e_alt Nat.sub]; try reflexivity.

Lemma ext_cat e a b r : e_stack e = b :: a :: r -> step_extended c e OP_CAT = with_stack e ((a ++ b) :: r).
Proof. ext H. Qed.

Lemma ext_invert e a r : e_stack e = a :: r -> step_extended c e OP_INVERT = with_stack e (map (fun x => 255 - x) a :: r).
Proof. ext H. Qed.

Definition bitop (opcode : Z) : Z -> Z -> Z :=
  if opcode =? OP_AND then Z.land else if opcode =? OP_OR then Z.lor else Z.lxor.

Lemma ext_bitwise e a b r opcode : (opcode = OP_AND \/ opcode = OP_OR \/ opcode = OP_XOR) ->
  e_stack e = b :: a :: r ->
  step_extended c e opcode =
  if zlen a =? zlen b then with_stack e (map2 (bitop opcode) a b :: r) else fail e SCRIPT_ERR_UNKNOWN_ERROR.
Proof.
  intros Ho H. destruct Ho as [-> | [-> | ->]]; unfold step_extended, bitop; closed_ifs; stack_depth H;
  unfold stop; rewrite H; cbn [nth Nat.sub]; destruct (zlen a =? zlen b); cbn [negb]; try reflexivity;
  unfold ok, popn, pushs, set_stack, with_stack; rewrite ?H; reflexivity.
Qed.

(* numeric family: operands decoded with the 5-byte rule *)
Definition dec5 (v : bytes) := sn_ctor v (req_minimal c) 5.

Lemma ext_2mul e a r n : e_stack e = a :: r -> dec5 a = Ok n -> step_extended c e OP_2MUL = with_stack e (sn_serialize (2 * n) :: r).
Proof. unfold dec5. ext H. unfold with_num. rewrite H0. unfold with_stack, set_stack. replace (n + n) with (2 * n) by lia. reflexivity. Qed.

Lemma ext_2div e a r n : e_stack e = a :: r -> dec5 a = Ok n -> step_extended c e OP_2DIV = with_stack e (sn_serialize (Z.quot n 2) :: r).
Proof. unfold dec5. ext H. unfold with_num. rewrite H0. unfold with_stack, set_stack. reflexivity. Qed.

Definition arith_result (opcode a b : Z) : option Z :=
  if opcode =? OP_MUL then (if Z.abs (a * b) <=? INT64_MAX then Some (a * b) else None)
  else if opcode =? OP_DIV then (if b =? 0 then None else Some (Z.quot a b))
  else if opcode =? OP_MOD then (if b =? 0 then None else Some (Z.rem a b))
  else if opcode =? OP_LSHIFT then (if (0 <=? b) && (b <=? 63) && (Z.abs (a * 2 ^ b) <=? INT64_MAX) then Some (a * 2 ^ b) else None)
  else (if (0 <=? b) && (b <=? 63) then Some (a / 2 ^ b) else None).

Lemma ext_arith e va vb r a b opcode :
  (opcode = OP_MUL \/ opcode = OP_DIV \/ opcode = OP_MOD \/ opcode = OP_LSHIFT \/ opcode = OP_RSHIFT) ->
  e_stack e = vb :: va :: r -> dec5 va = Ok a -> dec5 vb = Ok b ->
  step_extended c e opcode =
  match arith_result opcode a b with
  | Some v => with_stack e (sn_serialize v :: r)
  | None => fail e SCRIPT_ERR_UNKNOWN_ERROR
  end.
Proof.
  unfold dec5. intros Ho H Ha Hb.
  assert (Hpre: forall opc, (opc = OP_MUL \/ opc = OP_DIV \/ opc = OP_MOD \/ opc = OP_LSHIFT \/ opc = OP_RSHIFT) ->
          forall k : Z -> Z -> see * status,
          (if ssize e <? 2 then fail e SCRIPT_ERR_INVALID_STACK_OPERATION
           else with_num c (stop e 2) 5 e (fun x => with_num c (stop e 1) 5 e (fun y => k x y))) = k a b).
  { intros opc _ k. stack_depth H. unfold with_num, stop. rewrite H. cbn [nth Nat.sub]. rewrite Ha, Hb. reflexivity. }
  set (P := 2 ^ b).
  destruct Ho as [-> | [-> | [-> | [-> | ->]]]]; unfold step_extended, arith_result; closed_ifs;
  rewrite (Hpre _ ltac:(auto 6)); unfold in_sym64; fold P.
  - destruct (Z.abs (a * b) <=? INT64_MAX); unfold ok, fail, popn, pushs, set_stack, with_stack; rewrite ?H; reflexivity.
  - destruct (b =? 0); unfold ok, fail, popn, pushs, set_stack, with_stack; rewrite ?H; reflexivity.
  - destruct (b =? 0); unfold ok, fail, popn, pushs, set_stack, with_stack; rewrite ?H; reflexivity.
  - generalize (a * P). intros Q.
    destruct (Z.ltb_spec b 0); destruct (Z.ltb_spec 63 b); destruct (Z.leb_spec 0 b); destruct (Z.leb_spec b 63); try lia; cbn [orb andb negb]; try reflexivity;
    destruct (Z.abs Q <=? INT64_MAX); cbn [orb andb negb]; unfold ok, fail, popn, pushs, set_stack, with_stack; rewrite ?H; reflexivity.
  - generalize (a / P). intros Q.
    destruct (Z.ltb_spec b 0); destruct (Z.ltb_spec 63 b); destruct (Z.leb_spec 0 b); destruct (Z.leb_spec b 63); try lia; cbn [orb andb negb]; try reflexivity;
    unfold ok, fail, popn, pushs, set_stack, with_stack; rewrite ?H; reflexivity.
Qed.

(* splice family: offsets decoded with the 2-byte rule *)
Definition dec2 (v : bytes) := sn_ctor v (req_minimal c) 2.

Lemma ext_left e va vn r n : e_stack e = vn :: va :: r -> dec2 vn = Ok n ->
  step_extended c e OP_LEFT = if (0 <=? n) && (n <=? zlen va) then with_stack e (firstn (Z.to_nat n) va :: r) else fail e SCRIPT_ERR_UNKNOWN_ERROR.
Proof.
  unfold dec2. intros H Hn. unfold step_extended; closed_ifs; stack_depth H. unfold with_num, stop; rewrite H; cbn [nth Nat.sub]. rewrite Hn.
  destruct (Z.ltb_spec n 0); destruct (Z.ltb_spec (zlen va) n); destruct (Z.leb_spec 0 n); destruct (Z.leb_spec n (zlen va)); cbn [orb andb]; try lia; try reflexivity.
  unfold ok, popn, pushs, set_stack, with_stack. rewrite H. cbn [skipn]. 
  destruct (Z.ltb_spec n (zlen va)). reflexivity.
  assert (n = zlen va) by lia. subst n. unfold zlen. rewrite Nat2Z.id, firstn_all. reflexivity.
Qed.

Lemma ext_right e va vn r n : e_stack e = vn :: va :: r -> dec2 vn = Ok n ->
  step_extended c e OP_RIGHT = if (0 <=? n) && (n <=? zlen va) then with_stack e (skipn (length va - Z.to_nat n) va :: r) else fail e SCRIPT_ERR_UNKNOWN_ERROR.
Proof.
  unfold dec2. intros H Hn. unfold step_extended; closed_ifs; stack_depth H. unfold with_num, stop; rewrite H; cbn [nth Nat.sub]. rewrite Hn.
  destruct (Z.ltb_spec n 0); destruct (Z.ltb_spec (zlen va) n); destruct (Z.leb_spec 0 n); destruct (Z.leb_spec n (zlen va)); cbn [orb andb]; try lia; try reflexivity.
  unfold ok, popn, pushs, set_stack, with_stack. rewrite H. cbn [skipn].
  destruct (Z.ltb_spec n (zlen va)).
  - replace (Z.to_nat (zlen va - n)) with (length va - Z.to_nat n)%nat by (unfold zlen in *; lia). reflexivity.
  - assert (n = zlen va) by lia. subst n. unfold zlen. rewrite Nat2Z.id, Nat.sub_diag. reflexivity.
Qed.

Lemma ext_substr e va vb vn r b n : e_stack e = vn :: vb :: va :: r -> dec2 vb = Ok b -> dec2 vn = Ok n ->
  step_extended c e OP_SUBSTR =
  if (0 <=? b) && (0 <=? n) && (b + n <=? zlen va) then with_stack e (firstn (Z.to_nat n) (skipn (Z.to_nat b) va) :: r)
  else fail e SCRIPT_ERR_UNKNOWN_ERROR.
Proof.
  unfold dec2. intros H Hb Hn. unfold step_extended; closed_ifs; stack_depth H. unfold with_num, stop; rewrite H; cbn [nth Nat.sub]. rewrite Hb.
  destruct (Z.ltb_spec b 0); destruct (Z.leb_spec 0 b); cbn [andb]; try lia; try reflexivity.
  rewrite Hn.
  destruct (Z.ltb_spec n 0); destruct (Z.leb_spec 0 n); destruct (Z.ltb_spec (zlen va) (b + n)); destruct (Z.leb_spec (b + n) (zlen va)); cbn [orb andb]; try lia; try reflexivity.
  unfold ok, popn, pushs, set_stack, with_stack. rewrite H. cbn [skipn]. do 3 f_equal.
  assert (Hsk: (if 0 <? b then skipn (Z.to_nat b) va else va) = skipn (Z.to_nat b) va).
  { destruct (Z.ltb_spec 0 b). reflexivity. assert (b = 0) by lia. subst b. reflexivity. }
  rewrite Hsk.
  destruct (Z.ltb_spec n (zlen (skipn (Z.to_nat b) va))). reflexivity.
  unfold zlen in *. rewrite skipn_length in *. rewrite firstn_all2. reflexivity. rewrite skipn_length. lia.
Qed.
End Ext.

(* ------------------------------------------------------------ never a crash: every outcome of step_extended on the
   gate list is a result, a script error or a script-number exception *)
Theorem ext_no_crash c e opcode : is_extended_op opcode = true ->
  forall why, snd (step_extended c e opcode) <> SCrash why.
Proof.
  intros Hext why. unfold is_extended_op, disabled_gate in Hext. cbn [existsb] in Hext.
  repeat (apply Bool.orb_true_iff in Hext; destruct Hext as [Hext|Hext]); try discriminate;
  apply Z.eqb_eq in Hext; subst opcode; unfold step_extended; closed_ifs; unfold with_num, fail, ok;
  repeat match goal with
         | |- context [if ?b then _ else _] => destruct b
         | |- context [match sn_ctor ?v ?m ?n with _ => _ end] => 
             let E := fresh "E" in destruct (sn_ctor v m n) as [?|?|?] eqn:E;
             [| | unfold sn_ctor in E; repeat match type of E with context [if ?q then _ else _] => destruct q end; discriminate]
         end; cbn [snd]; discriminate.
Qed.

(* ------------------------------------------------------------ the gate *)
Section Gate.
Variable low_s : bytes -> bool.
Theorem gate_fires c e pc pc' opcode local :
  c_allow_disabled c = false -> is_extended_op opcode = true ->
  get_op pc = (Some (opcode, []), pc') ->
  (* the op-count limit is not what stops this instruction *)
  (c_sigver c = SV_TAPSCRIPT \/ c_sigver c = SV_TAPROOT \/ e_ops e < MAX_OPS_PER_SCRIPT) ->
  exists e0, step_script low_s c e pc local = (set_err e0 SCRIPT_ERR_DISABLED_OPCODE, pc', SErr)
             /\ e_stack e0 = e_stack e /\ e_alt e0 = e_alt e /\ e_cond e0 = e_cond e.
Proof.
  intros Hz Hext Hget Hops. unfold step_script. rewrite Hget.
  change (cmp_eval site_push_size (zlen []) MAX_SCRIPT_ELEMENT_SIZE) with false. cbv iota.
  assert (Hgt: cmp_eval (fst site_opcount_threshold) opcode (snd site_opcount_threshold) = true).
  { unfold is_extended_op, disabled_gate in Hext. cbn [existsb] in Hext.
    repeat (apply Bool.orb_true_iff in Hext; destruct Hext as [Hext|Hext]); try discriminate; apply Z.eqb_eq in Hext; subst opcode; reflexivity. }
  rewrite Hgt, Hz, Hext. change gate_before_exec with true. cbn [negb andb].
  destruct (((c_sigver c =? SV_BASE) || (c_sigver c =? SV_WITNESS_V0)) && true) eqn:Ecount.
  - rewrite Bool.andb_true_r in Ecount. cbn [andb].
    assert (Hlt: e_ops e < MAX_OPS_PER_SCRIPT).
    { destruct Hops as [Hs|[Hs|Hs]]; auto; rewrite Hs in Ecount; discriminate. }
    unfold set_ops at 1. cbn [e_ops].
    replace (cmp_eval site_opcount (e_ops e + 1) MAX_OPS_PER_SCRIPT) with false.
    2: { unfold site_opcount, cmp_eval. symmetry. apply Z.ltb_ge. lia. }
    eexists. split. reflexivity. repeat split.
  - cbn [andb]. eexists. split. reflexivity. repeat split.
Qed.
End Gate.
