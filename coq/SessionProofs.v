(* Session-level theorems: rewind exactly undoes a step (C04), exec leaves position and script alone (C16),
   the iterator strictly advances. *)
From Coq Require Import ZifyBool.
From BV Require Import Base ScriptNum Script Interp Session FrameProofs.
From BV.Gen Require Import Consts Sites.
Local Open Scope Z_scope.

(* ------------------------------------------------------------ GetScriptOp consumes at least one byte *)
Lemma get_op_suffix pc r pc' : get_op pc = (r, pc') -> exists pre, pc = pre ++ pc' /\ (r <> None -> pre <> []).
Proof.
  unfold get_op. destruct pc as [|opcode rest].
  { intros H; inversion H; subst. exists []. split; [reflexivity|]. intros Hc. exfalso. apply Hc. reflexivity. }
  destruct (opcode <=? OP_PUSHDATA4).
  2: { intros H; inversion H; subst. exists [opcode]. split; [reflexivity|]. discriminate. }
  set (rd := fun lenbytes : nat => if (length rest <? lenbytes)%nat then None else Some (le_value (firstn lenbytes rest), skipn lenbytes rest)).
  assert (Hrd: forall n v r2, rd n = Some (v, r2) -> exists p, rest = p ++ r2).
  { intros n v r2. unfold rd. destruct (length rest <? n)%nat; [discriminate|]. intros H; inversion H; subst. exists (firstn n rest). symmetry. apply firstn_skipn. }
  assert (Hmain: forall hdr, (forall v r2, hdr = Some (v, r2) -> exists p, rest = p ++ r2) ->
     match hdr with
     | Some (nSize, r2) => if Z.of_nat (length r2) <? nSize then (None, r2) else (Some (opcode, firstn (Z.to_nat nSize) r2), skipn (Z.to_nat nSize) r2)
     | None => (None, rest)
     end = (r, pc') -> exists pre, opcode :: rest = pre ++ pc' /\ (r <> None -> pre <> [])).
  { intros hdr Hh. destruct hdr as [[nSize r2]|].
    - destruct (Hh _ _ eq_refl) as [p Hp]. destruct (Z.of_nat (length r2) <? nSize).
      + intros H; inversion H; subst. exists (opcode :: p). split; [reflexivity|]. intros Hc. exfalso. apply Hc. reflexivity.
      + intros H; inversion H; subst. exists (opcode :: p ++ firstn (Z.to_nat nSize) r2). split. 2: discriminate.
        cbn [app]. f_equal. rewrite <- app_assoc, firstn_skipn. reflexivity.
    - intros H; inversion H; subst. exists [opcode]. split; [reflexivity|]. intros Hc. exfalso. apply Hc. reflexivity. }
  destruct (opcode <? OP_PUSHDATA1).
  { apply (Hmain (Some (opcode, rest))). intros v r2 H; inversion H; subst. exists []. reflexivity. }
  destruct (opcode =? OP_PUSHDATA1). { apply (Hmain (rd 1%nat)). apply Hrd. }
  destruct (opcode =? OP_PUSHDATA2). { apply (Hmain (rd 2%nat)). apply Hrd. }
  apply (Hmain (rd 4%nat)). apply Hrd.
Qed.

Lemma get_op_shorter pc op pc' : get_op pc = (Some op, pc') -> (length pc' < length pc)%nat.
Proof.
  intros H. destruct (get_op_suffix _ _ _ H) as [pre [Hp Hne]]. subst pc. rewrite app_length.
  assert (pre <> []) by (apply Hne; discriminate). destruct pre; [contradiction|]. cbn [length]. lia.
Qed.

Section S.
Variable low_s : bytes -> bool.
Variable tap_tweak_ok : bytes -> bytes -> bytes -> bool -> bool.
Variable sha256 : bytes -> bytes.
Variable c : cfg.

Lemma step_script_pc e pc local e1 pc1 : step_script low_s c e pc local = (e1, pc1, SOk) ->
  exists op, get_op pc = (Some op, pc1).
Proof.
  unfold step_script. destruct (get_op pc) as [[[opcode push]|] pc'] eqn:E. 2: { intros H; inversion H. }
  intros H. exists (opcode, push).
  repeat match type of H with
         | (if ?b then _ else _) = _ => destruct b
         | (let '(_, _) := ?x in _) = _ => destruct x
         | (match ?s with SOk => _ | _ => _ end) = _ => destruct s
         end; inversion H; subst; reflexivity.
Qed.

(* well-formed session state: the iterator points into the script *)
Definition wf (v : ienv) : Prop := exists pre, e_script (i_e v) = pre ++ i_pc v.

(* ------------------------------------------------------------ C04: rewind o step = identity *)
Theorem rewind_undoes_step v v' :
  wf v -> i_tce v = None -> i_pc v <> [] ->
  inst_step low_s tap_tweak_ok sha256 c v = (v', StepOk) -> dbg_rewind v' = Some v.
Proof.
  intros [pre Hwf] Htce Hpc Hstep. unfold inst_step in Hstep.
  destruct (i_done v) eqn:Hdone; [inversion Hstep|].
  unfold dbg_step in Hstep. rewrite Htce in Hstep.
  destruct (i_pc v) as [|b0 pcr] eqn:Epc; [contradiction|].
  destruct (step_script low_s c (i_e v) (b0 :: pcr) false) as [[e1 pc1] st] eqn:Est.
  pose proof (step_script_framed low_s c (i_e v) (b0 :: pcr) false) as Hfr. cbv zeta in Hfr. rewrite Est in Hfr. cbn [fst snd] in Hfr.
  destruct st; inversion Hstep; subst v'; clear Hstep.
  destruct Hfr as [_ Hfr]. specialize (Hfr eq_refl). destruct Hfr as [Hscr Herr]. cbn [fst] in Hscr, Herr.
  destruct (step_script_pc _ _ _ _ _ Est) as [op Hget]. pose proof (get_op_shorter _ _ _ Hget) as Hlen.
  unfold dbg_rewind.
  assert (Hns: at_start (set_seq (set_hist (upd v (set_pos e1 (e_pos e1 + 1)) pc1) (snap v :: i_hist v)) (i_seq v + 1)) = false).
  { unfold at_start. cbn [i_pc i_e set_seq set_hist upd set_pos e_script]. rewrite Hscr, Hwf, app_length. apply Nat.eqb_neq. cbn [length] in *. lia. }
  rewrite Hns. cbn [i_done set_seq set_hist upd]. rewrite Hdone. cbn [i_hist set_seq set_hist upd].
  f_equal. destruct v as [e pc hist seq dn p2 p2s succ tce op0]. cbn in *. subst.
  destruct e as [scr cb stk alt cond ops pos ed err]. cbn in *. subst.
  unfold set_seq, set_hist, upd, snap, set_pos. cbn. rewrite Hscr.
  f_equal. lia.
Qed.

(* rewinding from the end state only clears the end marker *)
Theorem rewind_from_done v : at_start v = false -> i_done v = true ->
  exists v', dbg_rewind v = Some v' /\ i_done v' = false /\ i_pc v' = i_pc v /\ i_hist v' = i_hist v /\ i_seq v' = i_seq v /\
             e_stack (i_e v') = e_stack (i_e v) /\ e_alt (i_e v') = e_alt (i_e v) /\ e_cond (i_e v') = e_cond (i_e v).
Proof. intros Hs Hd. unfold dbg_rewind. rewrite Hs, Hd. eexists. split. reflexivity. repeat split. Qed.

(* a refused rewind changes nothing (it returns no new state at all) *)
Theorem rewind_refused_at_start v : at_start v = true -> dbg_rewind v = None.
Proof. intros H. unfold dbg_rewind. rewrite H. reflexivity. Qed.

(* ------------------------------------------------------------ C16: exec touches neither position nor script *)
Lemma eval_loop_frs fuel e it : frs e (fst (eval_loop low_s fuel c e it)).
Proof.
  revert e it. induction fuel as [|f IH]; intros; cbn [eval_loop]. reflexivity.
  destruct it as [|b r]. reflexivity.
  pose proof (step_script_framed low_s c e (b :: r) true) as Hfr. cbv zeta in Hfr.
  destruct (step_script low_s c e (b :: r) true) as [[e1 it1] st]. cbn [fst snd] in Hfr. destruct Hfr as [H1 _].
  destruct st; cbn [fst]; try exact H1. apply (frs_trans e e1). exact H1. apply IH.
Qed.

Theorem exec_preserves_position v scr v' st :
  inst_eval low_s c v scr = (v', st) ->
  i_pc v' = i_pc v /\ e_script (i_e v') = e_script (i_e v) /\ i_seq v' = i_seq v /\ i_hist v' = i_hist v /\
  i_done v' = i_done v /\ i_succ v' = i_succ v /\ i_p2sh v' = i_p2sh v.
Proof.
  unfold inst_eval. pose proof (eval_loop_frs (S (length scr)) (i_e v) scr) as H.
  destruct (eval_loop low_s (S (length scr)) c (i_e v) scr) as [e1 s1]. cbn [fst] in H.
  intros E; inversion E; subst. cbn. repeat split. exact H.
Qed.

(* exec runs the very same step function; the only opcode whose effect depends on where the instruction lives is
   OP_CODESEPARATOR (it cannot move pbegincodehash into the temporary script) *)
Lemma exec_opcode_pc_irrelevant e opcode fe p1 p2 : opcode <> OP_CODESEPARATOR ->
  exec_opcode low_s c e opcode fe p1 = exec_opcode low_s c e opcode fe p2.
Proof.
  intros Hne. unfold exec_opcode.
  repeat match goal with
         | |- (if ?b then _ else _) = (if ?b then _ else _) => destruct b eqn:?; [reflexivity|]
         end.
  destruct (Z.eqb_spec opcode OP_CODESEPARATOR); [contradiction|].
  repeat match goal with
         | |- (if ?b then _ else _) = (if ?b then _ else _) => destruct b eqn:?; [reflexivity|]
         end.
  reflexivity.
Qed.

Theorem exec_step_is_script_step e pc opcode push pc' :
  get_op pc = (Some (opcode, push), pc') -> opcode <> OP_CODESEPARATOR ->
  step_script low_s c e pc true = step_script low_s c e pc false.
Proof.
  intros Hget Hne. unfold step_script. rewrite Hget.
  cbv iota.
  match goal with |- context [exec_opcode low_s c ?x opcode ?f None] => rewrite (exec_opcode_pc_irrelevant x opcode f None (Some pc') Hne) end.
  reflexivity.
Qed.

Theorem exec_single_op v scr e1 st : scr <> [] -> step_script low_s c (i_e v) scr true = (e1, [], st) ->
  inst_eval low_s c v scr = (upd v e1 (i_pc v), st).
Proof.
  intros Hne Hstep. unfold inst_eval. cbn [eval_loop]. destruct scr as [|b r]; [contradiction|]. rewrite Hstep.
  destruct st; reflexivity.
Qed.
End S.
