(* "Stack pictures": for every pure stack opcode the model's opcode body, for every stack of the required
   depth, produces exactly the permutation/duplication Bitcoin's rules prescribe (head of the list = top). *)
From Coq Require Import ZifyBool.
From BV Require Import Base ScriptNum Script Interp.
From BV.Gen Require Import Consts Sites.
Local Open Scope Z_scope.

(* resolve every [if] whose condition is a closed boolean *)
Ltac not_closed c := match c with context [?x] => is_var x end.
Ltac closed_ifs :=
  repeat match goal with
         | |- context [if ?c then _ else _] =>
             tryif not_closed c then fail else
             (let r := eval vm_compute in c in
              match r with
              | true => change c with true; cbv iota
              | false => change c with false; cbv iota
              end)
         end.

Ltac stack_depth H :=
  unfold need, ssize, llen; rewrite ?H; cbn [length];
  repeat match goal with
         | |- context [Z.of_nat ?n <? ?k] => destruct (Z.ltb_spec (Z.of_nat n) k); [exfalso; lia|]
         end.

Ltac pic H := intros; unfold exec_opcode; closed_ifs; stack_depth H; unfold ok, popn, pushs, stop, set_stack; rewrite ?H; cbn [nth skipn firstn app set_nth erase_nth insert_below e_stack e_alt Nat.sub]; try reflexivity.

Section Pictures.
Variable low_s : bytes -> bool.
Variable c : cfg.
Variable fe : bool.
Variable pc : option bytes.

Definition with_stack (e : see) (s : list bytes) : see * status := (set_stack e s, SOk).

Lemma pic_dup e a r : e_stack e = a :: r -> exec_opcode low_s c e OP_DUP fe pc = with_stack e (a :: a :: r).
Proof. pic H. Qed.
Lemma pic_drop e a r : e_stack e = a :: r -> exec_opcode low_s c e OP_DROP fe pc = with_stack e r.
Proof. pic H. Qed.
Lemma pic_nip e a b r : e_stack e = a :: b :: r -> exec_opcode low_s c e OP_NIP fe pc = with_stack e (a :: r).
Proof. pic H. Qed.
Lemma pic_over e a b r : e_stack e = a :: b :: r -> exec_opcode low_s c e OP_OVER fe pc = with_stack e (b :: a :: b :: r).
Proof. pic H. Qed.
Lemma pic_swap e a b r : e_stack e = a :: b :: r -> exec_opcode low_s c e OP_SWAP fe pc = with_stack e (b :: a :: r).
Proof. pic H. Qed.
Lemma pic_rot e a b x r : e_stack e = a :: b :: x :: r -> exec_opcode low_s c e OP_ROT fe pc = with_stack e (x :: a :: b :: r).
Proof. pic H. Qed.
Lemma pic_tuck e a b r : e_stack e = a :: b :: r -> exec_opcode low_s c e OP_TUCK fe pc = with_stack e (a :: b :: a :: r).
Proof. pic H. Qed.
Lemma pic_2drop e a b r : e_stack e = a :: b :: r -> exec_opcode low_s c e OP_2DROP fe pc = with_stack e r.
Proof. pic H. Qed.
Lemma pic_2dup e a b r : e_stack e = a :: b :: r -> exec_opcode low_s c e OP_2DUP fe pc = with_stack e (a :: b :: a :: b :: r).
Proof. pic H. Qed.
Lemma pic_3dup e a b x r : e_stack e = a :: b :: x :: r -> exec_opcode low_s c e OP_3DUP fe pc = with_stack e (a :: b :: x :: a :: b :: x :: r).
Proof. pic H. Qed.
Lemma pic_2over e a b x y r : e_stack e = a :: b :: x :: y :: r -> exec_opcode low_s c e OP_2OVER fe pc = with_stack e (x :: y :: a :: b :: x :: y :: r).
Proof. pic H. Qed.
Lemma pic_2rot e a b x y u v r : e_stack e = a :: b :: x :: y :: u :: v :: r ->
  exec_opcode low_s c e OP_2ROT fe pc = with_stack e (u :: v :: a :: b :: x :: y :: r).
Proof. pic H. Qed.
Lemma pic_2swap e a b x y r : e_stack e = a :: b :: x :: y :: r -> exec_opcode low_s c e OP_2SWAP fe pc = with_stack e (x :: y :: a :: b :: r).
Proof. pic H. Qed.

(* OP_PICK / OP_ROLL: the index operand n selects the item n positions below the new top *)
Lemma getint_small n : INT_MIN <= n <= INT_MAX -> sn_getint n = n.
Proof. intros H. unfold sn_getint. destruct (Z.ltb_spec INT_MAX n); [lia|]. destruct (Z.ltb_spec n INT_MIN); [lia|]. reflexivity. Qed.

Lemma pic_pick_roll e idx s n (roll : bool) :
  e_stack e = idx :: s -> sn_ctor idx (req_minimal c) 4 = Ok n -> 0 <= n < llen s -> n <= INT_MAX ->
  exec_opcode low_s c e (if roll then OP_ROLL else OP_PICK) fe pc =
  with_stack e (nth (Z.to_nat n) s [] :: (if roll then erase_nth (Z.to_nat n) s else s)).
Proof.
  intros H Hc Hn Hmax.
  assert (Hs: s <> []). { intro; subst s. unfold llen in Hn. cbn in Hn. lia. }
  destruct s as [|x s']; [contradiction|].
  unfold exec_opcode. destruct roll; closed_ifs; stack_depth H;
  unfold with_num, stop; rewrite H; cbn [nth Nat.sub]; rewrite Hc;
  rewrite getint_small by (unfold INT_MIN; lia);
  unfold popn, ssize, llen, set_stack; rewrite H; cbn [skipn e_stack length];
  unfold llen in Hn; cbn [length] in Hn;
  (destruct (Z.ltb_spec n 0); [lia|]); (destruct (Z.leb_spec (Z.of_nat (S (length s'))) n); [lia|]); cbn [orb];
  unfold ok, pushs, stop, set_stack; cbn [e_stack e_alt];
  replace (Z.to_nat (n + 1) - 1)%nat with (Z.to_nat n) by lia; reflexivity.
Qed.

Lemma pic_ifdup e a r : e_stack e = a :: r ->
  exec_opcode low_s c e OP_IFDUP fe pc = with_stack e (if cast_to_bool a then a :: a :: r else a :: r).
Proof. intros H. unfold exec_opcode; closed_ifs; stack_depth H. unfold stop; rewrite H; cbn [nth Nat.sub]. destruct (cast_to_bool a); unfold ok, pushs, with_stack, set_stack; rewrite ?H; try reflexivity. destruct e; cbn in *; subst; reflexivity. Qed.

Lemma pic_depth e : exec_opcode low_s c e OP_DEPTH fe pc = with_stack e (sn_serialize (llen (e_stack e)) :: e_stack e).
Proof. unfold exec_opcode; closed_ifs. reflexivity. Qed.

Lemma pic_size e a r : e_stack e = a :: r -> exec_opcode low_s c e OP_SIZE fe pc = with_stack e (sn_serialize (zlen a) :: a :: r).
Proof. pic H. Qed.

Lemma pic_toalt e a r : e_stack e = a :: r ->
  exec_opcode low_s c e OP_TOALTSTACK fe pc = (set_stack (set_alt e (a :: e_alt e)) r, SOk).
Proof. pic H. unfold set_alt; cbn [e_stack e_alt]; rewrite H; reflexivity. Qed.

Lemma pic_fromalt e a r : e_alt e = a :: r ->
  exec_opcode low_s c e OP_FROMALTSTACK fe pc = (set_alt (set_stack e (a :: e_stack e)) r, SOk).
Proof. intros H. unfold exec_opcode; closed_ifs. rewrite H. reflexivity. Qed.

Lemma pic_equal e a b r : e_stack e = a :: b :: r ->
  exec_opcode low_s c e OP_EQUAL fe pc = with_stack e ((if bytes_eqb b a then [1] else []) :: r).
Proof. pic H. Qed.

(* ------------------------------------------------------------ control flow, verification, hashing, small integers *)
(* the boolean the executed OP_IF / OP_NOTIF reads must be minimal ([] or [1]) in tapscript, and in witness v0 under MINIMALIF *)
Definition nonminimal_bool (v : bytes) : bool := (1 <? zlen v) || ((zlen v =? 1) && negb (hd 0 v =? 1)).
Definition minimalif_rule (c : cfg) : Z :=
  if c_sigver c =? SV_TAPSCRIPT then SCRIPT_ERR_TAPSCRIPT_MINIMALIF
  else if (c_sigver c =? SV_WITNESS_V0) && has_flag (c_flags c) SCRIPT_VERIFY_MINIMALIF then SCRIPT_ERR_MINIMALIF else 0.

(* executed OP_IF / OP_NOTIF: consumes the top element; the new nesting level is its truth value (negated for NOTIF); a non-minimal
   boolean is an error exactly where the minimal-if rule applies *)
Ltac fin_if H := rewrite ?Bool.andb_false_r; unfold ok, popn, set_cond, set_stack; rewrite H; cbn [skipn e_script e_cb e_stack e_alt e_cond e_ops e_pos e_ed e_err]; reflexivity.
Lemma pic_if_exec e a r (notif : bool) : e_stack e = a :: r ->
  exec_opcode low_s c e (if notif then OP_NOTIF else OP_IF) true pc =
  if nonminimal_bool a && negb (minimalif_rule c =? 0) then fail e (minimalif_rule c)
  else (set_cond (set_stack e r) (cs_push (e_cond e) (if notif then negb (cast_to_bool a) else cast_to_bool a)), SOk).
Proof.
  intros H. unfold exec_opcode, minimalif_rule. destruct notif; closed_ifs;
  (unfold ssize, llen; rewrite H; cbn [length];
   destruct (Z.ltb_spec (Z.of_nat (S (length r))) 1); [exfalso; lia|];
   unfold stop; rewrite H; cbn [nth Nat.sub]; fold (nonminimal_bool a);
   destruct (c_sigver c =? SV_TAPSCRIPT) eqn:Et; cbn [andb];
   [destruct (nonminimal_bool a); cbn [andb negb]; [reflexivity|fin_if H]|];
   destruct ((c_sigver c =? SV_WITNESS_V0) && has_flag (c_flags c) SCRIPT_VERIFY_MINIMALIF) eqn:Ew; cbn [andb];
   [destruct (nonminimal_bool a); cbn [andb negb]; [reflexivity|fin_if H]|];
   rewrite Bool.andb_false_r; fin_if H).
Qed.
Lemma pic_if_exec_empty e (notif : bool) : e_stack e = [] ->
  exec_opcode low_s c e (if notif then OP_NOTIF else OP_IF) true pc = fail e SCRIPT_ERR_UNBALANCED_CONDITIONAL.
Proof. intros H. unfold exec_opcode. destruct notif; closed_ifs; unfold ssize, llen; rewrite H; reflexivity. Qed.
(* OP_IF / OP_NOTIF in a branch that is not executed: one more (false) nesting level, nothing else *)
Lemma pic_if_skipped e (notif : bool) :
  exec_opcode low_s c e (if notif then OP_NOTIF else OP_IF) false pc = (set_cond e (cs_push (e_cond e) false), SOk).
Proof. unfold exec_opcode. destruct notif; closed_ifs; reflexivity. Qed.
Lemma pic_else e : exec_opcode low_s c e OP_ELSE fe pc =
  if cs_empty (e_cond e) then fail e SCRIPT_ERR_UNBALANCED_CONDITIONAL else (set_cond e (cs_toggle (e_cond e)), SOk).
Proof. unfold exec_opcode. closed_ifs. reflexivity. Qed.
Lemma pic_endif e : exec_opcode low_s c e OP_ENDIF fe pc =
  if cs_empty (e_cond e) then fail e SCRIPT_ERR_UNBALANCED_CONDITIONAL else (set_cond e (cs_pop (e_cond e)), SOk).
Proof. unfold exec_opcode. closed_ifs. reflexivity. Qed.
Lemma pic_verify e a r : e_stack e = a :: r ->
  exec_opcode low_s c e OP_VERIFY fe pc = if cast_to_bool a then with_stack e r else fail e SCRIPT_ERR_VERIFY.
Proof. pic H. Qed.
Lemma pic_return e : exec_opcode low_s c e OP_RETURN fe pc = fail e SCRIPT_ERR_OP_RETURN.
Proof. unfold exec_opcode. closed_ifs. reflexivity. Qed.
Lemma pic_nop e : exec_opcode low_s c e OP_NOP fe pc = (e, SOk).
Proof. unfold exec_opcode. closed_ifs. reflexivity. Qed.

(* the five hash opcodes replace the top element by its digest *)
Lemma pic_hash e a r opcode : e_stack e = a :: r -> In opcode [OP_RIPEMD160; OP_SHA1; OP_SHA256; OP_HASH160; OP_HASH256] ->
  exec_opcode low_s c e opcode fe pc =
  with_stack e ((if opcode =? OP_RIPEMD160 then h_ripemd160 (c_hash c) a
                 else if opcode =? OP_SHA1 then h_sha1 (c_hash c) a
                 else if opcode =? OP_SHA256 then h_sha256 (c_hash c) a
                 else if opcode =? OP_HASH160 then h_ripemd160 (c_hash c) (h_sha256 (c_hash c) a)
                 else h_sha256 (c_hash c) (h_sha256 (c_hash c) a)) :: r).
Proof.
  intros H Hin. cbn [In] in Hin. destruct Hin as [E|[E|[E|[E|[E|[]]]]]]; subst opcode; pic H.
Qed.

(* OP_1NEGATE, OP_1 .. OP_16 push the number *)
Lemma pic_smallint e opcode : opcode = OP_1NEGATE \/ OP_1 <= opcode <= OP_16 ->
  exec_opcode low_s c e opcode fe pc = with_stack e (sn_serialize (opcode - 80) :: e_stack e).
Proof.
  intros Hr. unfold exec_opcode.
  assert (Hx: is_extended_op opcode = false).
  { unfold is_extended_op. apply Bool.not_true_is_false. intros Ht. apply existsb_exists in Ht. destruct Ht as (x & Hi & He).
    apply Z.eqb_eq in He. subst x. revert Hi. vm_compute. intros Hi.
    repeat (destruct Hi as [Hi|Hi]; [subst opcode; destruct Hr as [Hr|Hr]; [discriminate Hr|vm_compute in Hr; destruct Hr as [H1 H2]; try (apply H1; reflexivity); try (apply H2; reflexivity)]|]).
    exact Hi. }
  rewrite Hx.
  assert (Hg: (opcode =? OP_1NEGATE) || ((OP_1 <=? opcode) && (opcode <=? OP_16)) = true).
  { destruct Hr as [Hr|[H1 H2]]; [subst; reflexivity|]. apply Bool.orb_true_iff. right. apply Bool.andb_true_iff. split; apply Z.leb_le; assumption. }
  rewrite Hg. reflexivity.
Qed.
End Pictures.
