(* Model of Bitcoin transaction (de)serialisation as implemented in btcdeb (bitcoin-core sources):
     primitives/transaction.h  UnserializeTransaction / SerializeTransaction, COutPoint, CTxIn, CTxOut
     serialize.h               ReadCompactSize / WriteCompactSize, vector & prevector codecs, ser_readdata*
     streams.h                 CDataStream::read (throws "end of data" when fewer bytes remain)
     primitives/transaction.cpp ComputeHash / ComputeWitnessHash (preimages only; SHA-256 is elsewhere)
     util/strencodings.cpp     TryHex, ParseFixedPoint
   DEFINITIONS ONLY (no proofs) so that the file can be extracted and run on its own.
   [None] = the C++ throws std::ios_base::failure (or returns false for the string parsers). *)
From BV Require Import Base.
Local Open Scope Z_scope.

Record outpoint := { op_hash : bytes (* 32 bytes as serialised *); op_n : Z (* uint32 *) }.
Record txin := { ti_prevout : outpoint; ti_scriptSig : bytes; ti_sequence : Z (* uint32 *);
                 ti_witness : list bytes }.
Record txout := { to_value : Z (* int64, may be negative *); to_spk : bytes }.
Record tx := { tx_version : Z (* int32, may be negative *); tx_vin : list txin; tx_vout : list txout;
               tx_locktime : Z (* uint32 *) }.

Definition MAX_SIZE : Z := 33554432.           (* 0x02000000 *)
Definition two16 : Z := 65536.
Definition two31 : Z := 2147483648.
Definition two32 : Z := 4294967296.
Definition two63 : Z := 9223372036854775808.
Definition two64 : Z := 18446744073709551616.

(* ---------------------------------------------------------------------------------------------- *)
(* Stream primitives.  A stream is the list of unread bytes; a reader returns the value and the   *)
(* unread rest.                                                                                   *)

Definition reader (A : Type) : Type := bytes -> option (A * bytes).

(* CDataStream::read of [n] bytes: one pass over the [n] bytes, fails if fewer remain.  [n] is a Z so
   that a huge announced size never gets converted to a unary number. *)
Fixpoint take (n : Z) (b : bytes) : option (bytes * bytes) :=
  if n <=? 0 then Some ([], b) else
  match b with
  | [] => None
  | x :: r => match take (n - 1) r with
              | Some (f, rest) => Some (x :: f, rest)
              | None => None
              end
  end.

(* ser_readdata8/16/32/64: little-endian unsigned *)
Definition read_le (n : Z) : reader Z := fun b =>
  match take n b with
  | Some (f, rest) => Some (le_value f, rest)
  | None => None
  end.

Definition to_signed32 (v : Z) : Z := if v <? two31 then v else v - two32.
Definition to_signed64 (v : Z) : Z := if v <? two63 then v else v - two64.

Definition wr_u32 (v : Z) : bytes := le_fixed 4 (v mod two32).   (* also int32: two's complement *)
Definition wr_u64 (v : Z) : bytes := le_fixed 8 (v mod two64).   (* also int64 *)

(* WriteCompactSize *)
Definition write_compact_size (n : Z) : bytes :=
  if n <? 253 then [n]
  else if n <=? 65535 then 253 :: le_fixed 2 n
  else if n <=? 4294967295 then 254 :: le_fixed 4 n
  else 255 :: le_fixed 8 n.

(* ReadCompactSize with range_check = true *)
Definition read_compact_size : reader Z := fun b =>
  match b with
  | [] => None                                              (* end of data *)
  | ch :: b1 =>
    if ch <? 253 then Some (ch, b1)
    else if ch =? 253 then
      match read_le 2 b1 with
      | None => None
      | Some (v, b2) => if v <? 253 then None                (* non-canonical *)
                        else if v >? MAX_SIZE then None      (* size too large (unreachable here) *)
                        else Some (v, b2)
      end
    else if ch =? 254 then
      match read_le 4 b1 with
      | None => None
      | Some (v, b2) => if v <? two16 then None              (* non-canonical *)
                        else if v >? MAX_SIZE then None      (* size too large *)
                        else Some (v, b2)
      end
    else
      match read_le 8 b1 with
      | None => None
      | Some (v, b2) => if v <? two32 then None              (* non-canonical *)
                        else if v >? MAX_SIZE then None      (* size too large: always *)
                        else Some (v, b2)
      end
  end.

(* vector<unsigned char> / prevector<N, unsigned char> (CScript): size, then the raw bytes *)
Definition wr_bytes_vec (v : bytes) : bytes := write_compact_size (zlen v) ++ v.
Definition rd_bytes_vec : reader bytes := fun b =>
  match read_compact_size b with
  | None => None
  | Some (n, b1) => take n b1
  end.

(* VectorFormatter<DefaultFormatter>: size, then the elements.  [fuel] bounds the number of
   elements; every element codec used here consumes at least one byte, so fuel = length of the
   whole input is always enough (when it runs out the stream is empty and the C++ throws too). *)
Definition ser_vec {A : Type} (wr : A -> bytes) (l : list A) : bytes :=
  write_compact_size (Z.of_nat (length l)) ++ flat_map wr l.

Fixpoint unser_elems {A : Type} (rd : reader A) (fuel : nat) (n : Z) (b : bytes)
  : option (list A * bytes) :=
  if n <=? 0 then Some ([], b) else
  match fuel with
  | O => None
  | S f => match rd b with
           | None => None
           | Some (x, b1) => match unser_elems rd f (n - 1) b1 with
                             | None => None
                             | Some (xs, b2) => Some (x :: xs, b2)
                             end
           end
  end.

Definition unser_vec {A : Type} (rd : reader A) (fuel : nat) : reader (list A) := fun b =>
  match read_compact_size b with
  | None => None
  | Some (n, b1) => unser_elems rd fuel n b1
  end.

(* ---------------------------------------------------------------------------------------------- *)
(* COutPoint, CTxIn, CTxOut                                                                        *)

Definition wr_outpoint (o : outpoint) : bytes := op_hash o ++ wr_u32 (op_n o).
Definition rd_outpoint : reader outpoint := fun b =>
  match take 32 b with
  | None => None
  | Some (h, b1) => match read_le 4 b1 with
                    | None => None
                    | Some (n, b2) => Some ({| op_hash := h; op_n := n |}, b2)
                    end
  end.

(* CTxIn::Serialize does not touch scriptWitness *)
Definition wr_txin (i : txin) : bytes :=
  wr_outpoint (ti_prevout i) ++ wr_bytes_vec (ti_scriptSig i) ++ wr_u32 (ti_sequence i).
Definition rd_txin : reader txin := fun b =>
  match rd_outpoint b with
  | None => None
  | Some (o, b1) =>
    match rd_bytes_vec b1 with
    | None => None
    | Some (s, b2) =>
      match read_le 4 b2 with
      | None => None
      | Some (q, b3) => Some ({| ti_prevout := o; ti_scriptSig := s; ti_sequence := q;
                                 ti_witness := [] |}, b3)
      end
    end
  end.

Definition wr_txout (o : txout) : bytes := wr_u64 (to_value o) ++ wr_bytes_vec (to_spk o).
Definition rd_txout : reader txout := fun b =>
  match read_le 8 b with
  | None => None
  | Some (v, b1) =>
    match rd_bytes_vec b1 with
    | None => None
    | Some (s, b2) => Some ({| to_value := to_signed64 v; to_spk := s |}, b2)
    end
  end.

(* scriptWitness.stack : vector<vector<unsigned char>> *)
Definition wr_witness (i : txin) : bytes := ser_vec wr_bytes_vec (ti_witness i).
Definition set_witness (i : txin) (w : list bytes) : txin :=
  {| ti_prevout := ti_prevout i; ti_scriptSig := ti_scriptSig i; ti_sequence := ti_sequence i;
     ti_witness := w |}.

(* for (i < vin.size()) s >> vin[i].scriptWitness.stack *)
Fixpoint rd_witnesses (fuel : nat) (vin : list txin) (b : bytes) : option (list txin * bytes) :=
  match vin with
  | [] => Some ([], b)
  | i :: r =>
    match unser_vec rd_bytes_vec fuel b with
    | None => None
    | Some (w, b1) =>
      match rd_witnesses fuel r b1 with
      | None => None
      | Some (r', b2) => Some (set_witness i w :: r', b2)
      end
    end
  end.

(* HasWitness: some input has a non-empty witness stack *)
Definition has_witness (vin : list txin) : bool :=
  existsb (fun i => match ti_witness i with [] => false | _ :: _ => true end) vin.
Definition tx_has_witness (t : tx) : bool := has_witness (tx_vin t).

(* ---------------------------------------------------------------------------------------------- *)
(* SerializeTransaction; [allow_witness] = !(s.GetVersion() & SERIALIZE_TRANSACTION_NO_WITNESS)     *)

Definition ser_tx (allow_witness : bool) (t : tx) : bytes :=
  let ext := allow_witness && tx_has_witness t in      (* flags = 1 *)
  wr_u32 (tx_version t)
  ++ (if ext then [0; 1] else [])                      (* empty vinDummy, then flags *)
  ++ ser_vec wr_txin (tx_vin t)
  ++ ser_vec wr_txout (tx_vout t)
  ++ (if ext then flat_map wr_witness (tx_vin t) else [])
  ++ wr_u32 (tx_locktime t).

(* UnserializeTransaction, the part after vin/vout have been read: witnesses, flag check, nLockTime *)
Definition unser_tail (allow_witness : bool) (fuel : nat) (ver flags : Z) (vin : list txin)
           (vout : list txout) (b : bytes) : option (tx * bytes) :=
  match (if Z.odd flags && allow_witness then
           match rd_witnesses fuel vin b with
           | None => None
           | Some (vin', b') =>
             if has_witness vin' then Some (Z.lxor flags 1, vin', b')
             else None                                  (* "Superfluous witness record" *)
           end
         else Some (flags, vin, b)) with
  | None => None
  | Some (flags', vin', b') =>
    if negb (flags' =? 0) then None                     (* "Unknown transaction optional data" *)
    else match read_le 4 b' with
         | None => None
         | Some (lt, b'') =>
           Some ({| tx_version := ver; tx_vin := vin'; tx_vout := vout; tx_locktime := lt |}, b'')
         end
  end.

Definition unser_tx_fuel (allow_witness : bool) (fuel : nat) : reader tx := fun b =>
  match read_le 4 b with
  | None => None
  | Some (v, b1) =>
    let ver := to_signed32 v in
    match unser_vec rd_txin fuel b1 with
    | None => None
    | Some (vin, b2) =>
      if (match vin with [] => true | _ :: _ => false end) && allow_witness then
        (* we read a dummy or an empty vin *)
        match b2 with
        | [] => None
        | flags :: b3 =>
          if negb (flags =? 0) then
            match unser_vec rd_txin fuel b3 with
            | None => None
            | Some (vin', b4) =>
              match unser_vec rd_txout fuel b4 with
              | None => None
              | Some (vout, b5) => unser_tail allow_witness fuel ver flags vin' vout b5
              end
            end
          else unser_tail allow_witness fuel ver flags [] [] b3
        end
      else
        match unser_vec rd_txout fuel b2 with
        | None => None
        | Some (vout, b3) => unser_tail allow_witness fuel ver 0 vin vout b3
        end
    end
  end.

Definition unser_tx (allow_witness : bool) : reader tx := fun b =>
  unser_tx_fuel allow_witness (length b) b.

(* ComputeHash hashes the serialisation without witness, ComputeWitnessHash the one with witness
   (for a tx without witness both coincide, matching the early return of ComputeWitnessHash) *)
Definition txid_preimage (t : tx) : bytes := ser_tx false t.
Definition wtxid_preimage (t : tx) : bytes := ser_tx true t.

(* ---------------------------------------------------------------------------------------------- *)
(* TryHex (util/strencodings.cpp) on a C string given as its ASCII codes                            *)

Definition is_space (c : Z) : bool :=
  (c =? 32) || (c =? 12) || (c =? 10) || (c =? 13) || (c =? 9) || (c =? 11).

Definition hex_digit (c : Z) : option Z :=
  if (48 <=? c) && (c <=? 57) then Some (c - 48)
  else if (65 <=? c) && (c <=? 70) then Some (c - 55)
  else if (97 <=? c) && (c <=? 102) then Some (c - 87)
  else None.

(* A code 0 is the C string terminator. *)
Fixpoint parse_hex_spaces (s : list Z) : option bytes :=
  match s with
  | [] => Some []
  | c :: r =>
    if c =? 0 then Some []
    else if is_space c then parse_hex_spaces r
    else match hex_digit c with
         | None => None                                  (* stray character: whole parse fails *)
         | Some h =>
           match r with
           | [] => None                                  (* odd number of digits *)
           | d :: r' =>
             match hex_digit d with
             | None => None                              (* NUL, space or stray after a high nibble *)
             | Some l => match parse_hex_spaces r' with
                         | None => None
                         | Some bs => Some (16 * h + l :: bs)
                         end
             end
           end
         end
  end.

(* ---------------------------------------------------------------------------------------------- *)
(* ParseFixedPoint(val, 8, &amount) (util/strencodings.cpp)                                         *)

Definition UPPER_BOUND : Z := 999999999999999999.        (* 10^18 - 1 *)
Definition UB10 : Z := 99999999999999999.                (* UPPER_BOUND / 10 *)

Definition is_digit (c : Z) : bool := (48 <=? c) && (c <=? 57).

(* k rounds of: if (mantissa > UPPER_BOUND/10) return false; mantissa *= 10 *)
Fixpoint mul10_checked (k : nat) (m : Z) : option Z :=
  match k with
  | O => Some m
  | S k' => if m >? UB10 then None else mul10_checked k' (m * 10)
  end.

(* ProcessMantissaDigit; state = (mantissa, mantissa_tzeros) *)
Definition process_mantissa_digit (ch : Z) (m : Z) (tz : nat) : option (Z * nat) :=
  if ch =? 48 then Some (m, S tz)
  else match mul10_checked (S tz) m with
       | None => None
       | Some m' => Some (m' + (ch - 48), O)
       end.

(* while (ptr < end && IsDigit(val[ptr])) { ProcessMantissaDigit; ++ptr; ++cnt } *)
Fixpoint mant_digits (s : list Z) (m : Z) (tz : nat) (cnt : Z) : option (Z * nat * Z * list Z) :=
  match s with
  | [] => Some (m, tz, cnt, s)
  | c :: r =>
    if is_digit c then
      match process_mantissa_digit c m tz with
      | None => None
      | Some (m', tz') => mant_digits r m' tz' (cnt + 1)
      end
    else Some (m, tz, cnt, s)
  end.

(* exponent digits *)
Fixpoint exp_digits (s : list Z) (e : Z) : option (Z * list Z) :=
  match s with
  | [] => Some (e, s)
  | c :: r =>
    if is_digit c then
      if e >? UB10 then None else exp_digits r (e * 10 + (c - 48))
    else Some (e, s)
  end.

(* same loop as mul10_checked but two-sided: |mantissa| > UPPER_BOUND/10 fails *)
Fixpoint scale10_checked (k : nat) (m : Z) : option Z :=
  match k with
  | O => Some m
  | S k' => if (m >? UB10) || (m <? - UB10) then None else scale10_checked k' (m * 10)
  end.

Definition first_is_digit (s : list Z) : bool :=
  match s with [] => false | c :: _ => is_digit c end.

(* integer part: a single '0', or [1-9][0-9]* *)
Definition pfp_int (s : list Z) : option (Z * nat * Z * list Z) :=
  match s with
  | [] => None                                            (* empty string or loose '-' *)
  | c :: r =>
    if c =? 48 then Some (0, O, 0, r)                     (* pass single 0 *)
    else if (49 <=? c) && (c <=? 57) then mant_digits s 0 O 0
    else None
  end.

(* optional fraction: '.' followed by at least one digit; returns point_ofs *)
Definition pfp_frac (s : list Z) (m : Z) (tz : nat) : option (Z * nat * Z * list Z) :=
  match s with
  | c :: r => if c =? 46 then (if first_is_digit r then mant_digits r m tz 0 else None)
              else Some (m, tz, 0, s)
  | [] => Some (m, tz, 0, s)
  end.

(* optional exponent: [eE][+-]?[0-9]+ ; returns the signed exponent *)
Definition pfp_exp (s : list Z) : option (Z * list Z) :=
  match s with
  | c :: r =>
    if (c =? 101) || (c =? 69) then
      let '(neg, r1) := match r with
                        | d :: r' => if d =? 43 then (false, r')
                                     else if d =? 45 then (true, r') else (false, r)
                        | [] => (false, r)
                        end in
      if first_is_digit r1 then
        match exp_digits r1 0 with
        | None => None
        | Some (e, rest) => Some (if neg then - e else e, rest)
        end
      else None
    else Some (0, s)
  | [] => Some (0, s)
  end.

(* "finalize exponent", "finalize mantissa", conversion to one 64-bit fixed-point value *)
Definition pfp_finish (neg : bool) (m : Z) (tz : nat) (point_ofs ex : Z) : option Z :=
  let e := ex - point_ofs + Z.of_nat tz + 8 in
  if e <? 0 then None                                     (* smaller than 10^-8 *)
  else if e >=? 18 then None                              (* larger than or equal to 10^(18-8) *)
  else match scale10_checked (Z.to_nat e) (if neg then - m else m) with
       | None => None
       | Some m' => if (m' >? UPPER_BOUND) || (m' <? - UPPER_BOUND) then None else Some m'
       end.

(* everything after the optional leading '-' *)
Definition pfp_body (neg : bool) (s1 : list Z) : option Z :=
  match pfp_int s1 with
  | None => None
  | Some (m, tz, _, s2) =>
    match pfp_frac s2 m tz with
    | None => None
    | Some (m, tz, point_ofs, s3) =>
      match pfp_exp s3 with
      | None => None
      | Some (ex, s4) =>
        match s4 with
        | _ :: _ => None                                  (* trailing garbage *)
        | [] => pfp_finish neg m tz point_ofs ex
        end
      end
    end
  end.

Definition parse_fixed_point8 (s : list Z) : option Z :=
  match s with
  | c :: r => if c =? 45 then pfp_body true r else pfp_body false s
  | [] => pfp_body false s
  end.

(* ---------------------------------------------------------------------------------------------- *)
(* Boolean well-formedness of the abstract values                                                  *)

Definition wf_bytes_vec (v : bytes) : bool := bytes_okb v && (zlen v <=? MAX_SIZE).
Definition wf_u32 (v : Z) : bool := (0 <=? v) && (v <? two32).
Definition wf_outpoint (o : outpoint) : bool :=
  Nat.eqb (length (op_hash o)) 32 && bytes_okb (op_hash o) && wf_u32 (op_n o).
Definition wf_witness (w : list bytes) : bool :=
  (Z.of_nat (length w) <=? MAX_SIZE) && forallb wf_bytes_vec w.
Definition wf_txin (i : txin) : bool :=
  wf_outpoint (ti_prevout i) && wf_bytes_vec (ti_scriptSig i) && wf_u32 (ti_sequence i)
  && wf_witness (ti_witness i).
Definition wf_txout (o : txout) : bool :=
  (- two63 <=? to_value o) && (to_value o <? two63) && wf_bytes_vec (to_spk o).
Definition wf_tx (t : tx) : bool :=
  (- two31 <=? tx_version t) && (tx_version t <? two31)
  && (Z.of_nat (length (tx_vin t)) <=? MAX_SIZE) && forallb wf_txin (tx_vin t)
  && (Z.of_nat (length (tx_vout t)) <=? MAX_SIZE) && forallb wf_txout (tx_vout t)
  && wf_u32 (tx_locktime t).
