(* C05: the stepwise commitment check (TaprootCommitmentEnv::Iterate driven by StepScript) computes the BIP341 Merkle fold
   and ends in Done exactly when the tweak check accepts the folded root. *)
From Coq Require Import ZifyBool.
From BV Require Import Base BaseProofs ScriptNum Script Session TapTool TapProofs.
From BV.Gen Require Import Consts.
Local Open Scope Z_scope.

Section Tce.
Variable tap_tweak_ok : bytes -> bytes -> bytes -> bool -> bool.
Variable sha256 : bytes -> bytes.
Hypothesis sha256_len : forall x, length (sha256 x) = 32%nat.

Notation Hb := (Hb sha256).

(* the path nodes of a control block: 32-byte chunks after the 33-byte base *)
Fixpoint nodes (m : nat) (rest : bytes) : list bytes :=
  match m with O => [] | S k => firstn 32 rest :: nodes k (skipn 32 rest) end.
Definition control_nodes (control : bytes) : list bytes := nodes (Z.to_nat ((zlen control - 33) / 32)) (skipn 33 control).

(* BIP341: leaf hash folded with the path nodes, then the tweak check with the parity bit of the control byte *)
Definition spec_leaf (control script : bytes) : bytes := tapleaf_hash sha256 (Z.land (hd 0 control) 254) script.
Definition spec_root (control script : bytes) : bytes := fold_left Hb (control_nodes control) (spec_leaf control script).
Definition spec_commit_ok (control program script : bytes) : bool :=
  tap_tweak_ok program (firstn 32 (skipn 1 control)) (spec_root control script) (Z.odd (hd 0 control)).

(* run Iterate until it stops processing *)
Fixpoint tce_run (fuel : nat) (t : tce) : tce * tce_state :=
  match fuel with
  | O => (t, TceProcessing)
  | S f => match tce_iterate tap_tweak_ok sha256 t with
           | (t', TceProcessing) => tce_run f t'
           | r => r
           end
  end.

Definition wf_control (control : bytes) : Prop := exists m, (m <= 128)%nat /\ length control = (33 + 32 * m)%nat.

Lemma tagged_len tag msg : length (tagged sha256 tag msg) = 32%nat.
Proof. unfold tagged. apply sha256_len. Qed.

Lemma nodes_skip j m rest : (j <= m)%nat -> firstn j (nodes m rest) = nodes j rest.
Proof.
  revert m rest. induction j as [|j IH]; intros m rest Hj. reflexivity.
  destruct m as [|m]. lia. cbn [nodes firstn]. f_equal. apply IH. lia.
Qed.

Lemma skipn_add {A} (a b : nat) (l : list A) : skipn a (skipn b l) = skipn (b + a) l.
Proof. revert l. induction b as [|b IH]; intros l. reflexivity. destruct l. cbn. destruct a; reflexivity. cbn. apply IH. Qed.

Lemma nodes_snoc j rest : nodes (S j) rest = nodes j rest ++ [firstn 32 (skipn (32 * j) rest)].
Proof.
  revert rest. induction j as [|j IH]; intros rest. cbn. reflexivity.
  change (nodes (S (S j)) rest) with (firstn 32 rest :: nodes (S j) (skipn 32 rest)). rewrite IH. cbn [nodes app]. f_equal. f_equal. f_equal.
  rewrite skipn_add. do 2 f_equal. lia.
Qed.

(* state after j branch steps *)
Definition at_step (control program script : bytes) (m j : nat) (t : tce) : Prop :=
  t_control t = control /\ t_program t = program /\ t_path_len t = Z.of_nat m /\ t_i t = Z.of_nat j /\
  t_k t = fold_left Hb (nodes j (skipn 33 control)) (spec_leaf control script) /\ t_leaf t = spec_leaf control script.

Lemma fold_Hb_len l k : length k = 32%nat -> length (fold_left Hb l k) = 32%nat.
Proof. revert k. induction l as [|x r IH]; intros k Hk. exact Hk. cbn [fold_left]. apply IH. unfold TapProofs.Hb. destruct (lex_lt x k); apply tagged_len. Qed.

Lemma spec_leaf_len control script : length (spec_leaf control script) = 32%nat.
Proof. unfold spec_leaf, tapleaf_hash. apply tagged_len. Qed.

Lemma new_at_step control program script m : length control = (33 + 32 * m)%nat ->
  at_step control program script m 0 (tce_new sha256 control program script).
Proof.
  intros Hl. unfold at_step, tce_new. cbn [t_control t_program t_path_len t_i t_k t_leaf nodes fold_left].
  repeat split; try reflexivity.
  - change TAPROOT_CONTROL_BASE_SIZE with 33. change TAPROOT_CONTROL_NODE_SIZE with 32. unfold zlen. rewrite Hl.
    replace (Z.of_nat (33 + 32 * m) - 33) with (32 * Z.of_nat m) by lia. rewrite Z.mul_comm, Z.div_mul by lia. reflexivity.
Qed.

Lemma iterate_branch control program script m j t : length control = (33 + 32 * m)%nat -> (j < m)%nat ->
  at_step control program script m j t ->
  exists t', tce_iterate tap_tweak_ok sha256 t = (t', TceProcessing) /\ at_step control program script m (S j) t'.
Proof.
  intros Hl Hj [Hc [Hp [Hm [Hi [Hk Hlf]]]]]. unfold tce_iterate. rewrite Hi, Hm. replace (Z.of_nat j <? Z.of_nat m) with true by lia.
  eexists. split. reflexivity. unfold at_step. cbn [t_control t_program t_path_len t_i t_k t_leaf].
  repeat split; try assumption. lia.
  rewrite nodes_snoc, fold_left_app. cbn [fold_left]. rewrite <- Hk.
  change TAPROOT_CONTROL_BASE_SIZE with 33. change TAPROOT_CONTROL_NODE_SIZE with 32. rewrite Hc.
  replace (Z.to_nat (33 + 32 * Z.of_nat j)) with (33 + 32 * j)%nat by lia. change (Z.to_nat 32) with 32%nat.
  replace (skipn (33 + 32 * j) control) with (skipn (32 * j) (skipn 33 control)) by (rewrite skipn_add; reflexivity).
  set (node := firstn 32 (skipn (32 * j) (skipn 33 control))).
  assert (Hnl: length node = 32%nat). { subst node. rewrite firstn_length, !skipn_length. lia. }
  assert (Hkl: length (t_k t) = 32%nat). { rewrite Hk. apply fold_Hb_len. apply spec_leaf_len. }
  apply iterate_branch_is_Hb. congruence.
Qed.

Lemma iterate_final control program script m t : length control = (33 + 32 * m)%nat ->
  at_step control program script m m t ->
  tce_iterate tap_tweak_ok sha256 t = (t, if spec_commit_ok control program script then TceDone else TceFailed).
Proof.
  intros Hl [Hc [Hp [Hm [Hi [Hk Hlf]]]]]. unfold tce_iterate. rewrite Hi, Hm. replace (Z.of_nat m <? Z.of_nat m) with false by lia.
  unfold spec_commit_ok, spec_root, control_nodes. rewrite Hp, Hc, Hk.
  unfold zlen. rewrite Hl. replace (Z.of_nat (33 + 32 * m) - 33) with (32 * Z.of_nat m) by lia. rewrite Z.mul_comm, Z.div_mul by lia. rewrite Nat2Z.id.
  reflexivity.
Qed.

Theorem run_from control program script m j t : length control = (33 + 32 * m)%nat -> (j <= m)%nat ->
  at_step control program script m j t ->
  exists t', tce_run (S (m - j)) t = (t', if spec_commit_ok control program script then TceDone else TceFailed)
             /\ at_step control program script m m t'.
Proof.
  intros Hl. remember (m - j)%nat as d eqn:Hd. revert j t Hd. induction d as [|d IH]; intros j t Hd Hj Hs.
  - assert (j = m) by lia. subst j. cbn [tce_run]. rewrite (iterate_final control program script m t Hl Hs).
    exists t. split. destruct (spec_commit_ok control program script); reflexivity. exact Hs.
  - destruct (iterate_branch control program script m j t Hl ltac:(lia) Hs) as [t1 [E1 Hs1]].
    change (tce_run (S (S d)) t) with (match tce_iterate tap_tweak_ok sha256 t with (t', TceProcessing) => tce_run (S d) t' | r => r end).
    rewrite E1. apply (IH (S j)); auto; lia.
Qed.

(* the stepwise check ends in Done exactly when BIP341's rule holds; every intermediate hash is the BIP341 value *)
Theorem commitment_done_iff control program script m : length control = (33 + 32 * m)%nat ->
  exists t', tce_run (S m) (tce_new sha256 control program script) = (t', if spec_commit_ok control program script then TceDone else TceFailed)
             /\ t_k t' = spec_root control script /\ t_leaf t' = spec_leaf control script.
Proof.
  intros Hl. destruct (run_from control program script m 0 _ Hl ltac:(lia) (new_at_step control program script m Hl)) as [t' [E Hs]].
  rewrite Nat.sub_0_r in E. exists t'. split. exact E.
  destruct Hs as [_ [_ [_ [_ [Hk Hlf]]]]]. split; [|exact Hlf].
  rewrite Hk. unfold spec_root, control_nodes. unfold zlen. rewrite Hl.
  replace (Z.of_nat (33 + 32 * m) - 33) with (32 * Z.of_nat m) by lia. rewrite Z.mul_comm, Z.div_mul by lia. rewrite Nat2Z.id. reflexivity.
Qed.

(* accepted control-block sizes (instance.cpp: base size, max size, node size; constants generated) *)
Theorem control_size_rule n :
  (negb ((n <? TAPROOT_CONTROL_BASE_SIZE) || (TAPROOT_CONTROL_MAX_SIZE <? n) || negb ((n - TAPROOT_CONTROL_BASE_SIZE) mod TAPROOT_CONTROL_NODE_SIZE =? 0)) = true)
  <-> exists m, 0 <= m <= 128 /\ n = 33 + 32 * m.
Proof.
  change TAPROOT_CONTROL_BASE_SIZE with 33. change TAPROOT_CONTROL_MAX_SIZE with 4129. change TAPROOT_CONTROL_NODE_SIZE with 32.
  split.
  - intros H. apply Bool.negb_true_iff in H. apply Bool.orb_false_iff in H. destruct H as [H H3]. apply Bool.orb_false_iff in H. destruct H as [H1 H2].
    apply Z.ltb_ge in H1. apply Z.ltb_ge in H2. apply Bool.negb_false_iff in H3. apply Z.eqb_eq in H3.
    exists ((n - 33) / 32). pose proof (Z.div_mod (n - 33) 32 ltac:(lia)). split. 2: lia.
    split. apply Z.div_pos; lia. apply Z.div_le_upper_bound; lia.
  - intros [m [Hm ->]]. apply Bool.negb_true_iff. apply Bool.orb_false_iff. split. apply Bool.orb_false_iff. split; apply Z.ltb_ge; lia.
    apply Bool.negb_false_iff. apply Z.eqb_eq. replace (33 + 32 * m - 33) with (m * 32) by lia. apply Z.mod_mul. lia.
Qed.
End Tce.
