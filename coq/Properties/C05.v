(* C05 - Step-by-step taproot commitment check equals the BIP341 rule. Statements only (TceProofs.v, TapProofs.v).
   Model: Session.tce_new / tce_iterate (TaprootCommitmentEnv constructor and Iterate). The elliptic-curve tweak check
   (XOnlyPubKey::CheckTapTweak) and SHA-256 are section parameters: the theorems hold for every instantiation with a
   32-byte hash; in the correspondence runs SHA-256 is Hashes.sha256 and the tweak check is answered by tools/refcrypto.py. *)
From BV Require Import Base BaseProofs ScriptNum Script Session TapTool TapProofs TceProofs.
Local Open Scope Z_scope.

Section C05.
Variable tap_tweak_ok : bytes -> bytes -> bytes -> bool -> bool.
Variable sha256 : bytes -> bytes.
Hypothesis sha256_len : forall x, length (sha256 x) = 32%nat.

(* for every control block of a valid size (33 + 32m bytes), script and program: stepping the commitment to the end yields
   Done exactly when BIP341's rule holds (TapLeaf hash folded with the m path nodes in lexicographic order, tweak check with
   the parity bit); the final running hash is the BIP341 Merkle root and the stored leaf hash is the TapLeaf hash *)
Theorem C05_done_iff : forall control program script m, length control = (33 + 32 * m)%nat ->
  exists t', tce_run tap_tweak_ok sha256 (S m) (tce_new sha256 control program script)
             = (t', if spec_commit_ok tap_tweak_ok sha256 control program script then TceDone else TceFailed)
          /\ t_k t' = spec_root sha256 control script /\ t_leaf t' = spec_leaf sha256 control script.
Proof. exact (commitment_done_iff tap_tweak_ok sha256 sha256_len). Qed.

(* every intermediate hash shown while stepping is the BIP341 value: after j branch steps the running hash is the fold of
   the first j path nodes *)
Theorem C05_states : forall control program script m j t, length control = (33 + 32 * m)%nat -> (j < m)%nat ->
  at_step sha256 control program script m j t ->
  exists t', tce_iterate tap_tweak_ok sha256 t = (t', TceProcessing) /\ at_step sha256 control program script m (S j) t'.
Proof. exact (iterate_branch tap_tweak_ok sha256 sha256_len). Qed.

(* the branch step orders the pair like BIP341 (smaller hash first); the byte-wise comparison is the numeric order *)
Theorem C05_branch_order : forall k node, length k = length node ->
  (if lex_lt k node then tagged sha256 TAG_TAPBRANCH (k ++ node) else tagged sha256 TAG_TAPBRANCH (node ++ k)) = Hb sha256 k node.
Proof. exact (iterate_branch_is_Hb sha256). Qed.
End C05.

Theorem C05_lex : forall a b, bytes_ok a -> bytes_ok b -> length a = length b -> lex_lt a b = (be_val a 0 <? be_val b 0).
Proof. exact lex_lt_is_numeric. Qed.

(* accepted control-block sizes are exactly 33 + 32m, m <= 128: the comparison operators are GENERATED from Instance::configure_tx_txin
   (Gen/Sites.v), the constants from script/interpreter.h (Gen/Consts.v) *)
Theorem C05_size : forall n,
  (negb (cmp_eval Gen.Sites.site_control_min n Gen.Consts.TAPROOT_CONTROL_BASE_SIZE || cmp_eval Gen.Sites.site_control_max n Gen.Consts.TAPROOT_CONTROL_MAX_SIZE
         || negb ((n - Gen.Consts.TAPROOT_CONTROL_BASE_SIZE) mod Gen.Consts.TAPROOT_CONTROL_NODE_SIZE =? 0)) = true)
  <-> exists m, 0 <= m <= 128 /\ n = 33 + 32 * m.
Proof.
  intros n.
  change (cmp_eval Gen.Sites.site_control_min n Gen.Consts.TAPROOT_CONTROL_BASE_SIZE) with (n <? Gen.Consts.TAPROOT_CONTROL_BASE_SIZE).
  change (cmp_eval Gen.Sites.site_control_max n Gen.Consts.TAPROOT_CONTROL_MAX_SIZE) with (Gen.Consts.TAPROOT_CONTROL_MAX_SIZE <? n).
  apply control_size_rule.
Qed.

Print Assumptions C05_done_iff.
Print Assumptions C05_states.
Print Assumptions C05_lex.
Print Assumptions C05_size.
