(* C17 - Re-enabled opcodes compute the functions their names denote. Statements only (proofs in ExtProofs.v).
   Head of the stack list = top; for binary opcodes a = second from top, b = top. *)
From BV Require Import Base ScriptNum Script Interp StackPictures ExtProofs.
From BV.Gen Require Import Consts Sites.
Local Open Scope Z_scope.

Section C17.
Variable c : cfg.

Theorem C17_cat : forall e a b r, e_stack e = b :: a :: r -> step_extended c e OP_CAT = with_stack e ((a ++ b) :: r).
Proof. exact (ext_cat c). Qed.

Theorem C17_substr : forall e va vb vn r b n, e_stack e = vn :: vb :: va :: r -> dec2 c vb = Ok b -> dec2 c vn = Ok n ->
  step_extended c e OP_SUBSTR =
  if (0 <=? b) && (0 <=? n) && (b + n <=? zlen va) then with_stack e (firstn (Z.to_nat n) (skipn (Z.to_nat b) va) :: r)
  else fail e SCRIPT_ERR_UNKNOWN_ERROR.
Proof. exact (ext_substr c). Qed.

Theorem C17_left : forall e va vn r n, e_stack e = vn :: va :: r -> dec2 c vn = Ok n ->
  step_extended c e OP_LEFT = if (0 <=? n) && (n <=? zlen va) then with_stack e (firstn (Z.to_nat n) va :: r) else fail e SCRIPT_ERR_UNKNOWN_ERROR.
Proof. exact (ext_left c). Qed.

Theorem C17_right : forall e va vn r n, e_stack e = vn :: va :: r -> dec2 c vn = Ok n ->
  step_extended c e OP_RIGHT = if (0 <=? n) && (n <=? zlen va) then with_stack e (skipn (length va - Z.to_nat n) va :: r) else fail e SCRIPT_ERR_UNKNOWN_ERROR.
Proof. exact (ext_right c). Qed.

Theorem C17_invert : forall e a r, e_stack e = a :: r -> step_extended c e OP_INVERT = with_stack e (map (fun x => 255 - x) a :: r).
Proof. exact (ext_invert c). Qed.

Theorem C17_bitwise : forall e a b r opcode, (opcode = OP_AND \/ opcode = OP_OR \/ opcode = OP_XOR) ->
  e_stack e = b :: a :: r ->
  step_extended c e opcode =
  if zlen a =? zlen b then with_stack e (map2 (bitop opcode) a b :: r) else fail e SCRIPT_ERR_UNKNOWN_ERROR.
Proof. exact (ext_bitwise c). Qed.

Theorem C17_2mul : forall e a r n, e_stack e = a :: r -> dec5 c a = Ok n -> step_extended c e OP_2MUL = with_stack e (sn_serialize (2 * n) :: r).
Proof. exact (ext_2mul c). Qed.

Theorem C17_2div : forall e a r n, e_stack e = a :: r -> dec5 c a = Ok n -> step_extended c e OP_2DIV = with_stack e (sn_serialize (Z.quot n 2) :: r).
Proof. exact (ext_2div c). Qed.

(* MUL = a*b, DIV / MOD = C truncating quotient / remainder (error on zero divisor), LSHIFT = a*2^b, RSHIFT = floor(a/2^b)
   for 0 <= b <= 63; results outside +-(2^63-1) are errors *)
Theorem C17_arith : forall e va vb r a b opcode,
  (opcode = OP_MUL \/ opcode = OP_DIV \/ opcode = OP_MOD \/ opcode = OP_LSHIFT \/ opcode = OP_RSHIFT) ->
  e_stack e = vb :: va :: r -> dec5 c va = Ok a -> dec5 c vb = Ok b ->
  step_extended c e opcode =
  match arith_result opcode a b with
  | Some v => with_stack e (sn_serialize v :: r)
  | None => fail e SCRIPT_ERR_UNKNOWN_ERROR
  end.
Proof. exact (ext_arith c). Qed.

(* invalid operands never crash: the outcome is a result, a script error or a script-number exception *)
Theorem C17_no_crash : forall e opcode, is_extended_op opcode = true -> forall why, snd (step_extended c e opcode) <> SCrash why.
Proof. exact (ext_no_crash c). Qed.
End C17.

(* without the option every one of them fails as a disabled opcode BEFORE the executed/unexecuted test
   (the position of the gate relative to that test is generated from the source: Gen.Sites.gate_before_exec) *)
Theorem C17_gate : forall low_s c e pc pc' opcode local,
  c_allow_disabled c = false -> is_extended_op opcode = true ->
  get_op pc = (Some (opcode, []), pc') ->
  (c_sigver c = SV_TAPSCRIPT \/ c_sigver c = SV_TAPROOT \/ e_ops e < MAX_OPS_PER_SCRIPT) ->
  exists e0, step_script low_s c e pc local = (set_err e0 SCRIPT_ERR_DISABLED_OPCODE, pc', SErr)
             /\ e_stack e0 = e_stack e /\ e_alt e0 = e_alt e /\ e_cond e0 = e_cond e.
Proof. exact gate_fires. Qed.

Theorem C17_gate_list : disabled_gate = [OP_CAT; OP_SUBSTR; OP_LEFT; OP_RIGHT; OP_INVERT; OP_AND; OP_OR; OP_XOR; OP_2MUL; OP_2DIV; OP_MUL; OP_DIV; OP_MOD; OP_LSHIFT; OP_RSHIFT]
  /\ gate_before_exec = true.
Proof. split; reflexivity. Qed.

Example C17_ex : arith_result OP_DIV (-7) 2 = Some (-3) /\ arith_result OP_MOD (-7) 2 = Some (-1) /\ arith_result OP_DIV 1 0 = None
  /\ arith_result OP_LSHIFT 1 64 = None /\ arith_result OP_RSHIFT (-5) 1 = Some (-3) /\ arith_result OP_LSHIFT (-3) 2 = Some (-12).
Proof. repeat split. Qed.

Print Assumptions C17_arith.
Print Assumptions C17_bitwise.
Print Assumptions C17_substr.
Print Assumptions C17_no_crash.
Print Assumptions C17_gate.
