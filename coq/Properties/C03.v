(* C03 - A --tx/--txin session reproduces consensus validation of that input. Statements only; proofs in ConfigureProofs.v.
   Model: BV.TxCli.select_input (Instance::parse_input_transaction), BV.Configure.configure (Instance::configure_tx_txin),
   BV.Configure.setup_txdata / pushonly_violation (Instance::setup_environment), BV.Session (StepScript(InterpreterEnv&)).
   The hash functions are parameters of the statements (any functions): the theorems are about which hashes are compared with which
   committed bytes, and the correspondence runs them with the Gallina SHA-256 / RIPEMD-160 of BV.Hashes. *)
From BV Require Import Base Script Interp Session Tx TxCli Sighash Configure ConfigureProofs VerifySpec VerifyProofs TapTool TceProofs PushOnlyProofs.
From BV.Gen Require Import Consts Sites.
Local Open Scope Z_scope.

(* --- input selection *)
(* whatever is selected references the funding transaction through one of its outputs, and an explicit selection is honoured *)
Theorem C03_selection_sound : forall spend funding txid sel i n,
  select_input spend funding txid sel = Some (i, n) ->
  exists x prev, nth_error (tx_vin spend) (Z.to_nat i) = Some x /\ 0 <= i /\ references x txid /\ op_n (ti_prevout x) = n /\
                 nth_error (tx_vout funding) (Z.to_nat n) = Some prev /\ 0 <= n /\ (0 <= sel -> i = sel).
Proof. exact select_sound. Qed.

Theorem C03_wrong_selection_refused : forall spend funding txid sel x,
  0 <= sel -> nth_error (tx_vin spend) (Z.to_nat sel) = Some x -> ~ references x txid -> select_input spend funding txid sel = None.
Proof. exact select_explicit_refused. Qed.

Theorem C03_selection_out_of_range_refused : forall spend funding txid sel,
  Z.of_nat (length (tx_vin spend)) <= sel -> select_input spend funding txid sel = None.
Proof. exact select_out_of_range_refused. Qed.

Theorem C03_auto_selection_is_first : forall spend funding txid sel i n,
  sel < 0 -> select_input spend funding txid sel = Some (i, n) ->
  forall j y, (j < Z.to_nat i)%nat -> nth_error (tx_vin spend) j = Some y -> ~ references y txid.
Proof. exact select_auto_first. Qed.

Theorem C03_no_selection_only_if_unreferenced : forall spend txid sel,
  sel < 0 -> select_input_raw spend txid sel = None -> forall x, In x (tx_vin spend) -> ~ references x txid.
Proof. exact select_auto_none. Qed.

(* --- amount and locking script come from the referenced output *)
Theorem C03_amount_from_referenced_output : forall sha256 ripemd160 spend funding i n s,
  configure sha256 ripemd160 spend funding i n = CfgOk s ->
  exists prev, nth_error (tx_vout funding) (Z.to_nat n) = Some prev /\ ss_amount s = to_value prev.
Proof. exact configure_prevout. Qed.

(* --- legacy (bare / P2PKH / P2SH) inputs: the scriptSig runs first on an empty stack, the referenced scriptPubKey follows *)
Theorem C03_legacy_setup : forall sha256 ripemd160 spend funding i n s,
  ti_witness (the_input spend i) = [] -> configure sha256 ripemd160 spend funding i n = CfgOk s ->
  exists prev, nth_error (tx_vout funding) (Z.to_nat n) = Some prev /\
    ss_script s = ti_scriptSig (the_input spend i) /\ ss_successor s = to_spk prev /\ ss_stack s = [] /\
    ss_sigver s = SV_BASE /\ ss_tce s = None /\ ss_preamble s = false.
Proof. exact configure_legacy. Qed.

(* --- segwit / taproot inputs: a session exists only for a version-0/1 witness program that is the scriptPubKey itself or the
       single push whose HASH160 the scriptPubKey commits to (P2SH-wrapped) *)
Theorem C03_witness_program_committed : forall sha256 ripemd160 spend funding i n s,
  ti_witness (the_input spend i) <> [] -> configure sha256 ripemd160 spend funding i n = CfgOk s ->
  exists prev validation ver program,
    nth_error (tx_vout funding) (Z.to_nat n) = Some prev /\
    committed sha256 ripemd160 (ti_scriptSig (the_input spend i)) (to_spk prev) validation /\
    witness_program validation = Some (ver, program) /\
    ((ver = 0 /\ exists wsh : bool, zlen program = (if wsh then 32 else 20) /\
                 configure_v0 sha256 ripemd160 wsh program (ti_witness (the_input spend i)) (to_value prev) = CfgOk s) \/
     (ver = 1 /\ configure_v1 sha256 program (ti_witness (the_input spend i)) (to_value prev) = CfgOk s)).
Proof. exact configure_witness. Qed.

(* P2WSH: the revealed script hashes to the program and runs on the remaining witness items; P2WPKH: the revealed key hashes to
   the program and the implied P2PKH script runs on the whole witness. A mismatching hash never yields a session. *)
Theorem C03_v0_commitment : forall sha256 ripemd160 (wsh : bool) program w amount s,
  configure_v0 sha256 ripemd160 wsh program w amount = CfgOk s ->
  ss_sigver s = SV_WITNESS_V0 /\ ss_successor s = [] /\ ss_tce s = None /\ ss_amount s = amount /\ ss_ed s = init_execdata /\
  if wsh then sha256 (last w []) = program /\ ss_script s = last w [] /\ ss_stack s = rev (removelast w) /\ ss_preamble s = false
  else hash160_ sha256 ripemd160 (last w []) = program /\ ss_script s = p2pkh_script program /\ ss_stack s = rev w /\ ss_preamble s = true.
Proof. exact configure_v0_spec. Qed.

Theorem C03_v0_mismatch_refused : forall sha256 ripemd160 (wsh : bool) program w amount,
  (if wsh then sha256 (last w []) else hash160_ sha256 ripemd160 (last w [])) <> program ->
  configure_v0 sha256 ripemd160 wsh program w amount = CfgRefused.
Proof.
  intros sha256 ripemd160 wsh program w amount H. unfold configure_v0, bytes_eqb.
  destruct (list_eq_dec Z.eq_dec _ program) as [E|E]; [contradiction|reflexivity].
Qed.

(* taproot: annex split off and hashed, key path = one remaining item checked against the output key, script path = items, script,
   control block of a legal size with the tapscript leaf version; the commitment walk (C05) starts from exactly these *)
Theorem C03_v1_setup : forall sha256 program w amount s, configure_v1 sha256 program w amount = CfgOk s ->
  let '(stack, annex) := strip_annex w in
  zlen program = 32 /\ ss_successor s = [] /\ ss_amount s = amount /\
  ed_annex_init (ss_ed s) = true /\ ed_annex_present (ss_ed s) = (match annex with Some _ => true | None => false end) /\
  (forall a, annex = Some a -> ed_annex_hash (ss_ed s) = annex_hash sha256 a) /\
  ((exists sig, stack = [sig] /\ ss_sigver s = SV_TAPROOT /\ ss_script s = push_data program ++ [OP_CHECKSIG] /\ ss_stack s = [sig] /\
                ss_preamble s = true /\ ss_tce s = None) \/
   (exists items script control, stack = items ++ [script; control] /\ ss_sigver s = SV_TAPSCRIPT /\ ss_script s = script /\
                ss_stack s = rev items /\ ss_preamble s = false /\ ss_tce s = Some (tce_new sha256 control program script) /\
                TAPROOT_CONTROL_BASE_SIZE <= zlen control <= TAPROOT_CONTROL_MAX_SIZE /\
                (zlen control - TAPROOT_CONTROL_BASE_SIZE) mod TAPROOT_CONTROL_NODE_SIZE = 0 /\
                Z.land (hd 0 control) TAPROOT_LEAF_MASK = TAPROOT_LEAF_TAPSCRIPT /\
                ed_tapleaf_init (ss_ed s) = true /\ ed_tapleaf (ss_ed s) = t_leaf (tce_new sha256 control program script) /\
                ed_weight_init (ss_ed s) = true /\ ed_weight_left (ss_ed s) = witness_size w + VALIDATION_WEIGHT_OFFSET)).
Proof. exact configure_v1_spec. Qed.

(* --- THE WHOLE SESSION of a legacy input (script-only, scriptSig + scriptPubKey, pay-to-script-hash) IS SCRIPT VALIDATION.
   [verify_ref] (VerifySpec.v) is Bitcoin's VerifyScript for a non-witness input written as a sequence of EvalScript calls - scriptSig,
   scriptPubKey, and for P2SH the redeem script taken from the stack the scriptSig left - each call with an empty alt stack, a zero operation
   count and the code hash at its start, each required to end with a balanced IF/ENDIF nesting, the scriptPubKey limited to 10,000 bytes, the
   P2SH scriptPubKey required to leave a true value. The theorem: running the debugger session to its end (continue, with enough fuel for
   one step per operation and per switch) ends exactly as that verdict says - same final environment, success / script error / exception.
   (Setting this theorem up exposed three defects repaired in /repo: c520f0c conditional across scripts, 3943ee3 alt stack across scripts,
   466d78a scriptPubKey size.) *)
Theorem C03_legacy_session_is_script_validation : forall low_s tap_tweak_ok sha256 c v0 f,
  i_tce v0 = None -> i_p2sh v0 = false -> i_done v0 = false -> i_pc v0 = e_script (i_e v0) -> enough low_s c f v0 ->
  ended (Session.dbg_continue low_s tap_tweak_ok sha256 f c v0) (verify_ref low_s c (i_e v0) (i_succ v0)).
Proof. exact session_is_validation. Qed.

(* the single-script case of the same theorem, spelled out: this is how the witness script of a P2WSH input, the implied P2PKH script of a
   P2WPKH input, the key-path check of a taproot input and a tapscript (after its commitment phase, C05) are run - on the stack the
   configuration theorems above prescribe: the session ends as one evaluation of that script followed by the balanced-nesting test *)
Theorem C03_single_script_session_is_one_evaluation : forall low_s tap_tweak_ok sha256 c v0 f,
  i_tce v0 = None -> i_p2sh v0 = false -> i_done v0 = false -> i_pc v0 = e_script (i_e v0) -> i_succ v0 = [] -> enough low_s c f v0 ->
  ended (Session.dbg_continue low_s tap_tweak_ok sha256 f c v0)
        (match eval_ref low_s c (i_e v0) (e_script (i_e v0)) with (e1, SOk) => finish e1 | (e1, st) => failed_verdict e1 st end).
Proof.
  intros low_s tap_tweak_ok sha256 c v0 f Ht Hp Hd Hpc Hs Hf.
  pose proof (session_is_validation low_s tap_tweak_ok sha256 c v0 f Ht Hp Hd Hpc Hf) as H.
  unfold verify_ref in H. rewrite Hs in H. exact H.
Qed.

(* witness inputs: the session never enters the pay-to-script-hash phase, whatever the witness script looks like, and is ONE evaluation of
   the script the configuration theorems prescribe (P2WSH witness script / implied P2PKH script / key-path check) on the prescribed stack *)
Theorem C03_witness_session_never_p2sh : forall c script stack succ ed t, (c_sigver c =? SV_BASE) = false ->
  i_p2sh (setup_env c script stack succ ed t) = false.
Proof. exact witness_session_not_p2sh. Qed.

Theorem C03_witness_script_session_is_one_evaluation : forall low_s tap_tweak_ok sha256 c script stack ed f,
  (c_sigver c =? SV_BASE) = false -> script <> [] -> script_too_big (c_sigver c) script = false ->
  enough low_s c f (setup_env c script stack [] ed None) ->
  ended (Session.dbg_continue low_s tap_tweak_ok sha256 f c (setup_env c script stack [] ed None))
        (match eval_ref low_s c (i_e (setup_env c script stack [] ed None)) script with
         | (e1, SOk) => finish e1 | (e1, st) => failed_verdict e1 st end).
Proof. exact witness_script_session. Qed.

(* the whole tapscript session (P2TR script path): the BIP341 commitment rule of C05 decides whether the script runs at all; when it holds the
   session is ONE evaluation of the revealed script with the leaf hash installed in the execution data, and when it does not the session ends with
   an error before any operation ran (environment untouched). Control block of any legal size 33+32m, ANY script - the empty one included: a
   session with a pending commitment check never starts out finished (F54) -, fuel bound explicit. *)
Theorem C03_tapscript_session_is_commitment_then_one_evaluation : forall low_s tap_tweak_ok sha256 c control program script m stack ed f,
  (forall x, length (sha256 x) = 32%nat) -> length control = (33 + 32 * m)%nat -> (c_sigver c =? SV_BASE) = false ->
  let t0 := tce_new sha256 control program script in
  let v0 := setup_env c script stack [] ed (Some t0) in
  let e_run := set_ed (i_e v0) (ed_set_tapleaf (e_ed (i_e v0)) (spec_leaf sha256 control script)) in
  (S m + (length script + 6) <= f)%nat ->
  if spec_commit_ok tap_tweak_ok sha256 control program script
  then ended (Session.dbg_continue low_s tap_tweak_ok sha256 f c v0)
             (match eval_ref low_s c e_run script with (e1, SOk) => finish e1 | (e1, st) => failed_verdict e1 st end)
  else exists v1, Session.dbg_continue low_s tap_tweak_ok sha256 f c v0 = (v1, SErr) /\ i_e v1 = i_e v0.
Proof. exact tapscript_session. Qed.

(* BIP16 / SIGPUSHONLY at session set-up: the scriptSig is refused exactly when a scriptPubKey follows, the scriptSig is not made of push
   operations only (it decodes completely and no opcode is above OP_16: OP_0, data pushes, OP_1NEGATE, OP_1 .. OP_16), and either SIGPUSHONLY
   is set or the scriptPubKey is pay-to-script-hash under the P2SH flag *)
Theorem C03_push_only_rule : forall flags script succ,
  pushonly_violation flags script succ = true <->
  succ <> [] /\ ~ all_pushes script /\
  (has_flag flags SCRIPT_VERIFY_SIGPUSHONLY = true \/ (has_flag flags SCRIPT_VERIFY_P2SH = true /\ is_p2sh_script succ = true)).
Proof. exact pushonly_violation_iff. Qed.
Theorem C03_push_only_is_all_pushes : forall s, is_push_only s = true <-> all_pushes s.
Proof. exact is_push_only_iff. Qed.
Example C03_op16_is_a_push : is_push_only [96; 2; 96; 135] = true /\ is_push_only [97] = false.     (* OP_16 <OP_16 OP_EQUAL> ; OP_NOP *)
Proof. split; vm_compute; reflexivity. Qed.

(* non-vacuity: the start state of every session built by setup_environment for a scriptSig that is not itself P2SH-shaped meets the premises *)
Example C03_session_premises : forall c script stack succ ed, script <> [] ->
  i_p2sh (setup_env c script stack succ ed None) = false ->
  let v0 := setup_env c script stack succ ed None in
  i_tce v0 = None /\ i_done v0 = false /\ i_pc v0 = e_script (i_e v0).
Proof. intros c script stack succ ed Hne Hp v0. repeat split. cbn. destruct script; [contradiction|reflexivity]. Qed.

(* the comparisons GENERATED from configure_tx_txin: control blocks of 33 + 32k bytes are legal for every k = 0..128, the bounds included *)
Theorem C03_control_block_size_bounds : forall n,
  (cmp_eval site_control_min n TAPROOT_CONTROL_BASE_SIZE || cmp_eval site_control_max n TAPROOT_CONTROL_MAX_SIZE) = negb ((33 <=? n) && (n <=? 33 + 32 * 128)).
Proof.
  intros n. change TAPROOT_CONTROL_BASE_SIZE with 33. change TAPROOT_CONTROL_MAX_SIZE with 4129. change (33 + 32 * 128) with 4129.
  unfold site_control_min, site_control_max, cmp_eval.
  destruct (n <? 33) eqn:E1; destruct (4129 <? n) eqn:E2; destruct (33 <=? n) eqn:E3; destruct (n <=? 4129) eqn:E4; try reflexivity; exfalso;
    repeat match goal with
           | H : (_ <? _) = true |- _ => apply Z.ltb_lt in H
           | H : (_ <? _) = false |- _ => apply Z.ltb_ge in H
           | H : (_ <=? _) = true |- _ => apply Z.leb_le in H
           | H : (_ <=? _) = false |- _ => apply Z.leb_gt in H
           end; lia.
Qed.

Print Assumptions C03_selection_sound.
Print Assumptions C03_legacy_session_is_script_validation.
Print Assumptions C03_single_script_session_is_one_evaluation.
Print Assumptions C03_witness_session_never_p2sh.
Print Assumptions C03_witness_script_session_is_one_evaluation.
Print Assumptions C03_tapscript_session_is_commitment_then_one_evaluation.
Print Assumptions C03_control_block_size_bounds.
Print Assumptions C03_push_only_rule.
Print Assumptions C03_push_only_is_all_pushes.
Print Assumptions C03_wrong_selection_refused.
Print Assumptions C03_selection_out_of_range_refused.
Print Assumptions C03_auto_selection_is_first.
Print Assumptions C03_no_selection_only_if_unreferenced.
Print Assumptions C03_amount_from_referenced_output.
Print Assumptions C03_legacy_setup.
Print Assumptions C03_witness_program_committed.
Print Assumptions C03_v0_commitment.
Print Assumptions C03_v0_mismatch_refused.
Print Assumptions C03_v1_setup.
