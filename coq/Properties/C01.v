(* C01 - Stepping a script follows Bitcoin's script rules at every operation.
   Statements only. Model: BV.Interp (StepScript opcode switch, generated limit sites / numeric expressions),
   BV.Session (debugger stepping). What is proved here, for ALL stacks / operands / flag sets:
     - numeric opcodes: the expressions generated from the C++ switch statements equal the arithmetic functions;
     - stack opcodes: the opcode bodies realise the prescribed stack pictures (incl. OP_PICK / OP_ROLL for every index);
     - CastToBool, CheckMinimalPush and the (size, first-false) condition stack equal their reference definitions.
     - whole steps: an operation in a non-executed branch is a no-op (apart from the operation count) unless it is OP_IF..OP_ENDIF; an
       executed push puts exactly its data on the stack; stepping a script to its end with the debugger performs exactly the evaluation loop
       (one step per operation, same environment, same status).
   C01_step_refines (whole-step simulation of every opcode against one independent reference interpreter) is NOT proved; the order
   of the checks inside one step is tied to the code by the generated sites and by the step-by-step correspondence. *)
From BV Require Import Base BaseProofs ScriptNum Script Interp Session EvalSpec InterpProofs StackPictures NumExpr StepProofs VerifySpec VerifyProofs.
From BV.Gen Require Import Consts Sites NumOps.
Local Open Scope Z_scope.

(* ---- numeric opcodes (operands a = second from top, b = top) *)
Theorem C01_num_unary : forall bn,
  unary_num OP_1ADD bn = Some (bn + 1) /\ unary_num OP_1SUB bn = Some (bn - 1) /\
  unary_num OP_NEGATE bn = Some (- bn) /\ unary_num OP_ABS bn = Some (Z.abs bn) /\
  unary_num OP_NOT bn = Some (if bn =? 0 then 1 else 0) /\ unary_num OP_0NOTEQUAL bn = Some (if bn =? 0 then 0 else 1).
Proof. intros. repeat match goal with |- _ /\ _ => split end; first [apply num_1add | apply num_1sub | apply num_negate | apply num_abs | apply num_not | apply num_0notequal]. Qed.

Theorem C01_num_binary : forall a b,
  binary_num OP_ADD a b = Some (a + b) /\ binary_num OP_SUB a b = Some (a - b) /\
  binary_num OP_BOOLAND a b = Some (if (a =? 0) || (b =? 0) then 0 else 1) /\
  binary_num OP_BOOLOR a b = Some (if (a =? 0) && (b =? 0) then 0 else 1) /\
  binary_num OP_NUMEQUAL a b = Some (if a =? b then 1 else 0) /\
  binary_num OP_NUMEQUALVERIFY a b = Some (if a =? b then 1 else 0) /\
  binary_num OP_NUMNOTEQUAL a b = Some (if a =? b then 0 else 1) /\
  binary_num OP_LESSTHAN a b = Some (if a <? b then 1 else 0) /\
  binary_num OP_GREATERTHAN a b = Some (if b <? a then 1 else 0) /\
  binary_num OP_LESSTHANOREQUAL a b = Some (if a <=? b then 1 else 0) /\
  binary_num OP_GREATERTHANOREQUAL a b = Some (if b <=? a then 1 else 0) /\
  binary_num OP_MIN a b = Some (Z.min a b) /\ binary_num OP_MAX a b = Some (Z.max a b).
Proof.
  intros. repeat match goal with |- _ /\ _ => split end;
  first [apply num_add | apply num_sub | apply num_booland | apply num_boolor | apply num_numequal | apply num_numequalverify
        | apply num_numnotequal | apply num_lessthan | apply num_greaterthan | apply num_lessthanorequal
        | apply num_greaterthanorequal | apply num_min | apply num_max].
Qed.

Theorem C01_num_within : forall x lo hi, within_num x lo hi = ((lo <=? x) && (x <? hi)).
Proof. exact num_within. Qed.

(* ---- stack opcodes (head of the list = top of the stack) *)
Section Pictures.
Variables (low_s : bytes -> bool) (c : cfg) (fe : bool) (pc : option bytes).
Notation run := (exec_opcode low_s c).
Theorem C01_pic_dup : forall e a r, e_stack e = a :: r -> run e OP_DUP fe pc = with_stack e (a :: a :: r). Proof. exact (pic_dup low_s c fe pc). Qed.
Theorem C01_pic_drop : forall e a r, e_stack e = a :: r -> run e OP_DROP fe pc = with_stack e r. Proof. exact (pic_drop low_s c fe pc). Qed.
Theorem C01_pic_nip : forall e a b r, e_stack e = a :: b :: r -> run e OP_NIP fe pc = with_stack e (a :: r). Proof. exact (pic_nip low_s c fe pc). Qed.
Theorem C01_pic_over : forall e a b r, e_stack e = a :: b :: r -> run e OP_OVER fe pc = with_stack e (b :: a :: b :: r). Proof. exact (pic_over low_s c fe pc). Qed.
Theorem C01_pic_swap : forall e a b r, e_stack e = a :: b :: r -> run e OP_SWAP fe pc = with_stack e (b :: a :: r). Proof. exact (pic_swap low_s c fe pc). Qed.
Theorem C01_pic_rot : forall e a b x r, e_stack e = a :: b :: x :: r -> run e OP_ROT fe pc = with_stack e (x :: a :: b :: r). Proof. exact (pic_rot low_s c fe pc). Qed.
Theorem C01_pic_tuck : forall e a b r, e_stack e = a :: b :: r -> run e OP_TUCK fe pc = with_stack e (a :: b :: a :: r). Proof. exact (pic_tuck low_s c fe pc). Qed.
Theorem C01_pic_2drop : forall e a b r, e_stack e = a :: b :: r -> run e OP_2DROP fe pc = with_stack e r. Proof. exact (pic_2drop low_s c fe pc). Qed.
Theorem C01_pic_2dup : forall e a b r, e_stack e = a :: b :: r -> run e OP_2DUP fe pc = with_stack e (a :: b :: a :: b :: r). Proof. exact (pic_2dup low_s c fe pc). Qed.
Theorem C01_pic_3dup : forall e a b x r, e_stack e = a :: b :: x :: r -> run e OP_3DUP fe pc = with_stack e (a :: b :: x :: a :: b :: x :: r). Proof. exact (pic_3dup low_s c fe pc). Qed.
Theorem C01_pic_2over : forall e a b x y r, e_stack e = a :: b :: x :: y :: r -> run e OP_2OVER fe pc = with_stack e (x :: y :: a :: b :: x :: y :: r). Proof. exact (pic_2over low_s c fe pc). Qed.
Theorem C01_pic_2rot : forall e a b x y u v r, e_stack e = a :: b :: x :: y :: u :: v :: r -> run e OP_2ROT fe pc = with_stack e (u :: v :: a :: b :: x :: y :: r). Proof. exact (pic_2rot low_s c fe pc). Qed.
Theorem C01_pic_2swap : forall e a b x y r, e_stack e = a :: b :: x :: y :: r -> run e OP_2SWAP fe pc = with_stack e (x :: y :: a :: b :: r). Proof. exact (pic_2swap low_s c fe pc). Qed.
Theorem C01_pic_pick_roll : forall e idx s n (roll : bool),
  e_stack e = idx :: s -> sn_ctor idx (req_minimal c) 4 = Ok n -> 0 <= n < llen s -> n <= INT_MAX ->
  run e (if roll then OP_ROLL else OP_PICK) fe pc = with_stack e (nth (Z.to_nat n) s [] :: (if roll then erase_nth (Z.to_nat n) s else s)).
Proof. exact (pic_pick_roll low_s c fe pc). Qed.
Theorem C01_pic_ifdup : forall e a r, e_stack e = a :: r -> run e OP_IFDUP fe pc = with_stack e (if cast_to_bool a then a :: a :: r else a :: r). Proof. exact (pic_ifdup low_s c fe pc). Qed.
Theorem C01_pic_depth : forall e, run e OP_DEPTH fe pc = with_stack e (sn_serialize (llen (e_stack e)) :: e_stack e). Proof. exact (pic_depth low_s c fe pc). Qed.
Theorem C01_pic_size : forall e a r, e_stack e = a :: r -> run e OP_SIZE fe pc = with_stack e (sn_serialize (zlen a) :: a :: r). Proof. exact (pic_size low_s c fe pc). Qed.
Theorem C01_pic_toalt : forall e a r, e_stack e = a :: r -> run e OP_TOALTSTACK fe pc = (set_stack (set_alt e (a :: e_alt e)) r, SOk). Proof. exact (pic_toalt low_s c fe pc). Qed.
Theorem C01_pic_fromalt : forall e a r, e_alt e = a :: r -> run e OP_FROMALTSTACK fe pc = (set_alt (set_stack e (a :: e_stack e)) r, SOk). Proof. exact (pic_fromalt low_s c fe pc). Qed.
Theorem C01_pic_equal : forall e a b r, e_stack e = a :: b :: r -> run e OP_EQUAL fe pc = with_stack e ((if bytes_eqb b a then [1] else []) :: r). Proof. exact (pic_equal low_s c fe pc). Qed.
(* control flow: an executed OP_IF / OP_NOTIF consumes the top element and opens a nesting level with its truth value (negated for NOTIF);
   a non-minimal boolean fails exactly where the minimal-if rule applies (tapscript always, witness v0 under MINIMALIF, legacy never) *)
Theorem C01_pic_if_executed : forall e a r (notif : bool), e_stack e = a :: r ->
  run e (if notif then OP_NOTIF else OP_IF) true pc =
  if nonminimal_bool a && negb (minimalif_rule c =? 0) then fail e (minimalif_rule c)
  else (set_cond (set_stack e r) (cs_push (e_cond e) (if notif then negb (cast_to_bool a) else cast_to_bool a)), SOk).
Proof. exact (pic_if_exec low_s c pc). Qed.
Theorem C01_pic_if_executed_empty : forall e (notif : bool), e_stack e = [] ->
  run e (if notif then OP_NOTIF else OP_IF) true pc = fail e SCRIPT_ERR_UNBALANCED_CONDITIONAL.
Proof. exact (pic_if_exec_empty low_s c pc). Qed.
(* ... in a branch that is not executed it only opens one more (false) level *)
Theorem C01_pic_if_skipped : forall e (notif : bool),
  run e (if notif then OP_NOTIF else OP_IF) false pc = (set_cond e (cs_push (e_cond e) false), SOk).
Proof. exact (pic_if_skipped low_s c pc). Qed.
Theorem C01_pic_else : forall e, run e OP_ELSE fe pc =
  if cs_empty (e_cond e) then fail e SCRIPT_ERR_UNBALANCED_CONDITIONAL else (set_cond e (cs_toggle (e_cond e)), SOk).
Proof. exact (pic_else low_s c fe pc). Qed.
Theorem C01_pic_endif : forall e, run e OP_ENDIF fe pc =
  if cs_empty (e_cond e) then fail e SCRIPT_ERR_UNBALANCED_CONDITIONAL else (set_cond e (cs_pop (e_cond e)), SOk).
Proof. exact (pic_endif low_s c fe pc). Qed.
Theorem C01_pic_verify : forall e a r, e_stack e = a :: r ->
  run e OP_VERIFY fe pc = if cast_to_bool a then with_stack e r else fail e SCRIPT_ERR_VERIFY.
Proof. exact (pic_verify low_s c fe pc). Qed.
Theorem C01_pic_return : forall e, run e OP_RETURN fe pc = fail e SCRIPT_ERR_OP_RETURN.
Proof. exact (pic_return low_s c fe pc). Qed.
(* the five hash opcodes replace the top element by its digest *)
Theorem C01_pic_hash : forall e a r opcode, e_stack e = a :: r -> In opcode [OP_RIPEMD160; OP_SHA1; OP_SHA256; OP_HASH160; OP_HASH256] ->
  run e opcode fe pc =
  with_stack e ((if opcode =? OP_RIPEMD160 then h_ripemd160 (c_hash c) a
                 else if opcode =? OP_SHA1 then h_sha1 (c_hash c) a
                 else if opcode =? OP_SHA256 then h_sha256 (c_hash c) a
                 else if opcode =? OP_HASH160 then h_ripemd160 (c_hash c) (h_sha256 (c_hash c) a)
                 else h_sha256 (c_hash c) (h_sha256 (c_hash c) a)) :: r).
Proof. exact (pic_hash low_s c fe pc). Qed.
(* OP_1NEGATE, OP_1 .. OP_16 push the number *)
Theorem C01_pic_smallint : forall e opcode, opcode = OP_1NEGATE \/ OP_1 <= opcode <= OP_16 ->
  run e opcode fe pc = with_stack e (sn_serialize (opcode - 80) :: e_stack e).
Proof. exact (pic_smallint low_s c fe pc). Qed.
End Pictures.

(* ---- truth value of stack items, minimal pushes, conditional nesting *)
Theorem C01_casttobool : forall v, bytes_ok v -> (cast_to_bool v = true <-> spec_truthy v).
Proof. exact cast_to_bool_true_iff. Qed.

Theorem C01_minimal_push : forall data opcode, zlen data <= 65535 ->
  (check_minimal_push data opcode = true <-> spec_minimal_push data opcode).
Proof. exact check_minimal_push_spec. Qed.

Theorem C01_condstack_refines : forall l f, cs_small l ->
  cs_push (cs_of l) f = cs_of (l ++ [f]) /\ cs_pop (cs_of (l ++ [f])) = cs_of l /\
  cs_toggle (cs_of (l ++ [f])) = cs_of (l ++ [negb f]) /\ cs_all_true (cs_of l) = spec_cond_all_true l /\
  cs_empty (cs_of l) = match l with [] => true | _ => false end.
Proof. intros. repeat match goal with |- _ /\ _ => split end; first [apply cs_push_refines; assumption | apply cs_pop_refines; assumption | apply cs_toggle_refines; assumption | apply cs_all_true_refines; assumption | apply cs_empty_refines]. Qed.

(* ---- whole steps *)
Theorem C01_skipped_operation_is_noop : forall low_s c e pc local opcode push pc' e1 pc1,
  get_op pc = (Some (opcode, push), pc') -> cs_all_true (e_cond e) = false -> (OP_IF <=? opcode) && (opcode <=? OP_ENDIF) = false ->
  step_script low_s c e pc local = (e1, pc1, SOk) ->
  pc1 = pc' /\ e_stack e1 = e_stack e /\ e_alt e1 = e_alt e /\ e_cond e1 = e_cond e /\ e_cb e1 = e_cb e /\ e_ed e1 = e_ed e /\
  e_script e1 = e_script e /\ (e_ops e1 = e_ops e \/ e_ops e1 = e_ops e + 1).
Proof. exact skipped_operation_is_noop. Qed.

Theorem C01_executed_push : forall low_s c e pc local opcode push pc' e1 pc1,
  get_op pc = (Some (opcode, push), pc') -> cs_all_true (e_cond e) = true -> 0 <= opcode <= OP_PUSHDATA4 ->
  step_script low_s c e pc local = (e1, pc1, SOk) ->
  pc1 = pc' /\ e_stack e1 = push :: e_stack e /\ e_alt e1 = e_alt e /\ e_cond e1 = e_cond e /\ e_cb e1 = e_cb e /\ e_ops e1 = e_ops e /\
  (req_minimal c = true -> check_minimal_push push opcode = true) /\ zlen push <= MAX_SCRIPT_ELEMENT_SIZE.
Proof. exact executed_push. Qed.

(* stepping = evaluating: letting the debugger run the current script to its end (continue) performs exactly the evaluation loop
   [eval_loop_ref] - the same one-step function applied operation after operation - and stops where it stops *)
Theorem C01_stepping_is_evaluation : forall low_s tap_tweak_ok sha256 c g v f,
  (length (i_pc v) < g)%nat -> (g <= f)%nat -> i_tce v = None -> i_done v = false ->
  match eval_loop_ref low_s c g (i_e v) (i_pc v) with
  | (e1, SOk) => exists v1 f1, Session.dbg_continue low_s tap_tweak_ok sha256 f c v = Session.dbg_continue low_s tap_tweak_ok sha256 f1 c v1 /\
                               (f <= f1 + length (i_pc v))%nat /\ i_e v1 = e1 /\ i_pc v1 = [] /\ same_shell v v1
  | (e1, st) => exists v1, Session.dbg_continue low_s tap_tweak_ok sha256 f c v = (v1, st) /\ i_e v1 = e1
  end.
Proof. exact phase. Qed.

(* non-vacuity *)
Example C01_ex_negzero : cast_to_bool [0; 128] = false /\ cast_to_bool [128; 0] = true /\ cast_to_bool [0; 0; 1] = true.
Proof. repeat split. Qed.
Example C01_ex_cond : cs_toggle (cs_push (cs_push cs_empty_stack true) false) = cs_of [true; true].
Proof. reflexivity. Qed.

Print Assumptions C01_num_unary.
Print Assumptions C01_skipped_operation_is_noop.
Print Assumptions C01_executed_push.
Print Assumptions C01_stepping_is_evaluation.
Print Assumptions C01_num_binary.
Print Assumptions C01_num_within.
Print Assumptions C01_pic_2rot.
Print Assumptions C01_pic_pick_roll.
Print Assumptions C01_pic_if_executed.
Print Assumptions C01_pic_if_skipped.
Print Assumptions C01_pic_else.
Print Assumptions C01_pic_endif.
Print Assumptions C01_pic_verify.
Print Assumptions C01_pic_hash.
Print Assumptions C01_pic_smallint.
Print Assumptions C01_casttobool.
Print Assumptions C01_minimal_push.
Print Assumptions C01_condstack_refines.
