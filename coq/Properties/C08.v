(* C08 - Non-interactive btcdeb prints the final stack and never exits abnormally. Statements only.
   Model: BV.Cli.main_noninteractive (btcdeb.cpp main in non-interactive mode, print_stack raw mode).
   PARTIAL, stated: process-level facts (isatty, signals, stdio buffering, getopt) are observed by running the real binary,
   not proved. In the model the result does not depend on --quiet / --debug / DEBUG_* because they are not inputs of
   main_noninteractive at all; that independence carries weight only through the correspondence runs. *)
From BV Require Import Base BaseProofs ScriptNum Script Interp Session Value Transforms Cli CliProofs SafetyProofs TerminationProofs.
Local Open Scope Z_scope.

(* the hex printer: two lower-case hex digits per byte, nothing else, and injective *)
Theorem C08_hex_length : forall b, length (hexstr b) = (2 * length b)%nat.
Proof. exact hexstr_length. Qed.
Theorem C08_hex_chars : forall b c, bytes_ok b -> In c (hexstr b) -> (48 <= c <= 57) \/ (97 <= c <= 102).
Proof. exact hexstr_chars. Qed.
Theorem C08_hex_injective : forall a b, bytes_ok a -> bytes_ok b -> hexstr a = hexstr b -> a = b.
Proof. exact hexstr_injective. Qed.

(* the printed stack: one line per item, bottom first; the line structure is recoverable, so different stacks print differently *)
Theorem C08_stack_lines : forall st, print_stack_raw st = concat (map (fun it => hexstr it ++ [10]) (rev st)).
Proof. reflexivity. Qed.
Theorem C08_stack_injective : forall a b, Forall bytes_ok a -> Forall bytes_ok b -> print_stack_raw a = print_stack_raw b -> a = b.
Proof. exact print_stack_raw_injective. Qed.

(* exit 0 with the final stack exactly when the session runs to the end without error; otherwise exit 1 with the
   script error text (or the exception notice) on stderr *)
Theorem C08_outcome : forall chk script_str args flag_mod z out,
  main_noninteractive chk script_str args flag_mod z = CliOk out ->
  exists flags scr stack v',
    (match flag_mod with None => Some Gen.CliTables.main_initial_flags | Some m => svf_parse_flags Gen.CliTables.main_initial_flags m end) = Some flags /\
    args_data args [] = POk stack /\
    (match script_str with None => POk [] | Some s => arg_data do_exec s end) = POk scr /\
    let c := {| c_flags := flags; c_sigver := SV_BASE; c_allow_disabled := z; c_pv_map := []; c_pv_keys := []; c_chk := chk; c_hash := base_hashes |} in
    let v := setup_env c scr stack [] init_execdata None in
    dbg_continue Der.low_s_strict (fun _ _ _ _ => false) Hashes.sha256 (continue_fuel v) c v = (v', SOk) /\
    out = print_stack_raw (e_stack (i_e v')).
Proof. exact main_ok_inv. Qed.

(* NEVER EXITS ABNORMALLY: unless a value parser aborts inside a transform (the C14/C15 layer), the non-interactive run of ANY script text, stack
   arguments, flag modification and -z setting ends with the stack (exit 0) or a diagnostic (exit 1) - no crash outcome of any operation
   (C15 safety) and the run-to-end loop finishes within its fuel: every step strictly decreases the number of steps left
   (operations of the current script + the end-of-script step + the saved redeem script in the pay-to-script-hash phase) *)
Theorem C08_never_exits_abnormally : forall chk script_str args flag_mod z,
  (forall s, script_str = Some s -> arg_data do_exec s <> PAbort) -> args_data args [] <> PAbort ->
  main_noninteractive chk script_str args flag_mod z <> CliAbort.
Proof. exact main_never_aborts. Qed.

(* the termination measure behind it, for every session without pending scriptPubKey / commitment phase *)
Theorem C08_every_step_decreases_the_steps_left : forall low_s tap_tweak_ok sha256 c v v',
  i_tce v = None -> i_succ v = [] -> i_done v = false -> Session.dbg_step low_s tap_tweak_ok sha256 c v = (v', SOk) ->
  i_tce v' = None /\ i_succ v' = [] /\ (steps_left v' < steps_left v)%nat.
Proof. exact step_decreases. Qed.
Theorem C08_run_to_end_never_crashes : forall low_s tap_tweak_ok sha256 c f v,
  i_tce v = None -> i_succ v = [] -> safe c (i_e v) -> (steps_left v < f)%nat ->
  forall x, snd (Session.dbg_continue low_s tap_tweak_ok sha256 f c v) <> SCrash x.
Proof. exact continue_never_crashes. Qed.

Print Assumptions C08_hex_injective.
Print Assumptions C08_stack_injective.
Print Assumptions C08_outcome.
Print Assumptions C08_never_exits_abnormally.
Print Assumptions C08_every_step_decreases_the_steps_left.
Print Assumptions C08_run_to_end_never_crashes.
