(* C07 - btcc assembles every token sequence into the exact minimal encoding. Statements only (ValueProofs.v).
   Model: BV.Value (Value literal classifier, parse_args tokenisers, operator>>, Value::serialize),
   BV.Script (CScript::operator<<, push_int64, GetScriptOp, CheckMinimalPush). *)
From BV Require Import Base BaseProofs ScriptNum Script Value SessionProofs ValueProofs.
From BV.Gen Require Import Consts.
Local Open Scope Z_scope.

(* push-form selection of CScript::operator<<: direct / PUSHDATA1 / PUSHDATA2 / PUSHDATA4 *)
Theorem C07_thresholds : forall n, 0 <= n ->
  push_opcode_for n = (if n <=? 75 then n else if n <=? 255 then 76 else if n <=? 65535 then 77 else 78).
Proof.
  intros n Hn. unfold push_opcode_for. change OP_PUSHDATA1 with 76. change OP_PUSHDATA2 with 77. change OP_PUSHDATA4 with 78.
  destruct (Z.ltb_spec n 76); destruct (Z.leb_spec n 75); try lia; reflexivity.
Qed.

(* a data push decodes back to exactly (push opcode, data), leaving the rest of the script *)
Theorem C07_push_decodes : forall d rest, zlen d < 2 ^ 32 ->
  get_op (push_data d ++ rest) = (Some (push_opcode_for (zlen d), d), rest).
Proof. exact get_op_push_data. Qed.

(* integers: the emitted operation pushes the script-number encoding of n and is a minimal push *)
Theorem C07_int : forall n rest, - 2 ^ 63 <= n < 2 ^ 63 ->
  get_op (value_emit (VInt n) ++ rest) = (Some (int_op n), rest) /\
  pushed_value (int_op n) = Some (sn_serialize n) /\
  (let '(opcode, data) := int_op n in opcode <= OP_PUSHDATA4 -> check_minimal_push data opcode = true).
Proof. intros. repeat split. apply get_op_push_int64; auto. apply int_op_pushes; auto. apply int_op_minimal; auto. Qed.

(* hex literals: the emitted operation places EXACTLY the given bytes on the stack, in minimal push form *)
Theorem C07_hex : forall d rest, bytes_ok d -> zlen d < 2 ^ 32 ->
  get_op (value_emit (VData d) ++ rest) = (Some (data_op d), rest) /\
  pushed_value (data_op d) = Some d /\
  (let '(opcode, data) := data_op d in opcode <= OP_PUSHDATA4 -> check_minimal_push data opcode = true).
Proof. intros. repeat split. apply get_op_emit_data; auto. apply data_op_pushes; auto. apply data_op_minimal; auto. Qed.

(* a whole compiled sequence decodes back to the operation sequence, in order *)
Theorem C07_decode_roundtrip : forall vs, Forall wf_value vs ->
  decode_ops (concat (map value_emit vs)) = map op_of vs.
Proof. exact compile_decodes. Qed.

(* a bracketed sub-script is the push of its compiled body *)
Theorem C07_subscript : forall do_exec f v toks vals,
  str_eqb v [CH_0; CH_x] = false ->
  ((1 <? length v)%nat && (hd 0 v =? CH_LBR) && (last_ch v =? CH_RBR)) = true ->
  parse_args_str (tl v) (length v - 2) = POk toks ->
  parse_vec do_exec f toks [] false [] = POk vals ->
  classify do_exec (S f) v = POk (VData (concat (map value_emit vals))).
Proof. exact classify_bracket. Qed.

(* literal classification on concrete representatives of each class (tokens as ASCII codes):
   "0x00" -> push of the byte 00 (not OP_0), "0x0100" -> push 0100, "01" -> OP_1, "-1" -> OP_1NEGATE, "17" -> push 0x11,
   "OP_DUP"/"DUP" -> 0x76, "OP_x61" -> 0x61, "[OP_1 [OP_2]]" -> push of (OP_1, push of OP_2) *)
Example C07_ex_tokens :
  btcc (fun _ _ => None) [[48;120;48;48]; [48;120;48;49;48;48]; [48;49]; [45;49]; [49;55]; [79;80;95;68;85;80]; [68;85;80]; [79;80;95;120;54;49];
                          [91;79;80;95;49;32;91;79;80;95;50;93;93]]
  = POk [1;0; 2;1;0; 81; 79; 1;17; 118; 118; 97; 3;81;1;82].
Proof. vm_compute. reflexivity. Qed.
Example C07_ex_int64 : canonical_decimal INT64_LO INT64_HI [45;57;50;50;51;51;55;50;48;51;54;56;53;52;55;55;53;56;48;56] = Some (- 2 ^ 63)
  /\ canonical_decimal INT64_LO INT64_HI [57;50;50;51;51;55;50;48;51;54;56;53;52;55;55;53;56;48;56] = None
  /\ canonical_decimal INT64_LO INT64_HI [48;55] = None /\ canonical_decimal INT64_LO INT64_HI [45;48] = None.
Proof. repeat split. Qed.

Print Assumptions C07_thresholds.
Print Assumptions C07_push_decodes.
Print Assumptions C07_int.
Print Assumptions C07_hex.
Print Assumptions C07_decode_roundtrip.
Print Assumptions C07_subscript.
