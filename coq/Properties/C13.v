(* C13 - Transaction decoding is lossless and identifiers are correct. Statements only; proofs in TxProofs.v / TxTheorems.v.
   Model: BV.Tx (UnserializeTransaction / SerializeTransaction with the extended format, compact sizes with the canonical
   and MAX_SIZE checks, TryHex, ParseFixedPoint(.,8)), BV.TxCli (parse_tx, Instance::parse_transaction, input selection). *)
From Coq Require Import ZifyBool.
From BV Require Import Base BaseProofs Tx TxProofs TxTheorems TxCli.
Local Open Scope Z_scope.

Lemma parse_hex_spaces_ok s b : parse_hex_spaces s = Some b -> bytes_ok b.
Proof.
  assert (G: forall n s, (length s <= n)%nat -> forall b, parse_hex_spaces s = Some b -> bytes_ok b).
  { induction n as [|n IH]; intros s0 Hl b0 H.
    - destruct s0; [|cbn in Hl; lia]. inversion H. constructor.
    - destruct s0 as [|c r]. inversion H; constructor.
      cbn [parse_hex_spaces] in H. cbn [length] in Hl. destruct (c =? 0). inversion H; constructor.
      destruct (is_space c). { apply (IH r); [lia|exact H]. }
      destruct (hex_digit c) as [h|] eqn:Eh; [|discriminate].
      destruct r as [|d r']; [discriminate|].
      destruct (hex_digit d) as [l|] eqn:El; [|discriminate].
      destruct (parse_hex_spaces r') as [bs|] eqn:Er; [|discriminate].
      assert (Hb: b0 = 16 * h + l :: bs) by congruence. subst b0. apply bytes_ok_cons. split.
      + assert (Hd: forall x v, hex_digit x = Some v -> 0 <= v < 16).
        { intros x v. unfold hex_digit. repeat match goal with |- context [if ?q then _ else _] => destruct q eqn:? end; intros Hx; inversion Hx; subst;
          repeat match goal with
                 | H : (_ && _) = true |- _ => apply andb_prop in H; destruct H
                 | H : (_ <=? _) = true |- _ => apply Z.leb_le in H
                 end; lia. }
        pose proof (Hd _ _ Eh). pose proof (Hd _ _ El). lia.
      + apply (IH r'). cbn [length] in Hl. lia. exact Er. }
  apply (G (length s) s). lia.
Qed.

(* whatever --tx / --txin accepts re-serialises to exactly the bytes given, and every field is in range *)
Theorem C13_parse_tx_lossless : forall s t, parse_tx s = PtxOk t ->
  exists data, parse_hex_spaces s = Some data /\ ser_tx true t = data /\ wf_tx t = true.
Proof.
  intros s t H. unfold parse_tx in H. destruct (parse_hex_spaces s) as [data|] eqn:Eh; [|discriminate].
  destruct (unser_tx true data) as [[t' rest]|] eqn:Eu; [|discriminate]. destruct rest; [|discriminate]. inversion H; subst t'.
  pose proof (parse_hex_spaces_ok _ _ Eh) as Hok.
  exists data. split; [reflexivity|]. split.
  - pose proof (tx_roundtrip_bytes true data t [] Hok Eu) as Hr. rewrite app_nil_r in Hr. exact Hr.
  - destruct (unser_tx_wf true data t [] Hok Eu) as [Hwf _]. exact Hwf.
Qed.

Theorem C13_roundtrip_bytes : forall aw b t rest, bytes_ok b -> unser_tx aw b = Some (t, rest) -> ser_tx aw t ++ rest = b.
Proof. exact tx_roundtrip_bytes. Qed.

Theorem C13_roundtrip_value : forall t rest, wf_tx t = true -> tx_vin t <> [] -> unser_tx true (ser_tx true t ++ rest) = Some (t, rest).
Proof. exact tx_roundtrip_value. Qed.

(* the txid preimage is the witness-stripped encoding *)
Theorem C13_txid_preimage : forall t rest, wf_tx t = true ->
  txid_preimage t = ser_tx false t /\ unser_tx false (ser_tx false t ++ rest) = Some (strip_witness t, rest).
Proof. intros. split. reflexivity. apply tx_roundtrip_value_false_strips; assumption. Qed.

(* every strict prefix of a valid encoding is rejected *)
Theorem C13_truncation_rejected : forall aw t k, wf_tx t = true -> tx_vin t <> [] ->
  (k < length (ser_tx aw t))%nat -> unser_tx aw (firstn k (ser_tx aw t)) = None.
Proof. exact tx_truncation_rejected. Qed.

(* the zero-input corner of the wire format is genuinely ambiguous: stated, with witnesses *)
Theorem C13_novin_ambiguous :
  wf_tx tx_amb = true /\ wf_tx tx_amb' = true /\ tx_amb <> tx_amb' /\ ser_tx true tx_amb = ser_tx true tx_amb'.
Proof. destruct tx_novin_ambiguous as [A [B [C [D _]]]]. repeat split; assumption. Qed.

Theorem C13_compact_size : forall n rest, 0 <= n <= 33554432 -> read_compact_size (write_compact_size n ++ rest) = Some (n, rest).
Proof. exact compact_size_roundtrip. Qed.
Theorem C13_compact_size_canonical : forall b n rest, bytes_ok b -> read_compact_size b = Some (n, rest) -> b = write_compact_size n ++ rest.
Proof. exact compact_size_canonical. Qed.

(* amounts: value * 10^8 exactly for up to 8 fractional digits; more digits only if they are zeros; malformed rejected *)
Theorem C13_amount_exact : forall neg ip fp,
  canon_int ip -> Forall digit fp -> fp <> [] -> (length fp <= 8)%nat ->
  let v := dec_value ip * 10 ^ 8 + dec_value fp * 10 ^ (8 - Z.of_nat (length fp)) in
  parse_fixed_point8 (sign_prefix neg ++ ip ++ 46 :: fp) = if v <=? UPPER_BOUND then Some (if neg then - v else v) else None.
Proof. exact parse_fixed_point8_exact. Qed.
Theorem C13_amount_more_digits : forall neg ip f8 ex,
  canon_int ip -> Forall digit f8 -> length f8 = 8%nat -> Forall digit ex ->
  parse_fixed_point8 (sign_prefix neg ++ ip ++ 46 :: f8 ++ ex)
  = if forallb (Z.eqb 48) ex then parse_fixed_point8 (sign_prefix neg ++ ip ++ 46 :: f8) else None.
Proof. exact parse_fixed_point8_more_digits. Qed.

Print Assumptions C13_parse_tx_lossless.
Print Assumptions C13_roundtrip_value.
Print Assumptions C13_txid_preimage.
Print Assumptions C13_truncation_rejected.
Print Assumptions C13_amount_exact.
