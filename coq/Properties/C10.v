(* C10 - Resource limits are enforced at exactly the consensus bounds. Statements only (LimitProofs.v).
   The comparison operator and the constant of every limit check are GENERATED from the source (Gen/Sites.v,
   Gen/Consts.v); these theorems pin them to the consensus values, so '>' turned into '>=' or a changed
   constant in the C++ breaks the proofs below. Numeric operand sizes: see also C18_range_of_length. *)
From BV Require Import Base ScriptNum Script Interp Session EvalSpec LimitProofs ScriptNumProofs Configure PushOnlyProofs.
From BV.Gen Require Import Consts Sites.
Local Open Scope Z_scope.

Theorem C10_guards : forall n,
  cmp_eval site_push_size n MAX_SCRIPT_ELEMENT_SIZE = (520 <? n) /\
  cmp_eval site_opcount n MAX_OPS_PER_SCRIPT = (201 <? n) /\
  cmp_eval site_multisig_opcount n MAX_OPS_PER_SCRIPT = (201 <? n) /\
  cmp_eval site_stack_size n MAX_STACK_SIZE = (1000 <? n) /\
  cmp_eval site_pubkey_count n MAX_PUBKEYS_PER_MULTISIG = (20 <? n) /\
  cmp_eval (fst site_opcount_threshold) n (snd site_opcount_threshold) = (96 <? n).
Proof. intros. repeat split. Qed.

Theorem C10_numeric_sizes : nDefaultMaxNumSize = 4 /\ numsize_cltv = 5 /\ numsize_csv = 5.
Proof. exact numsizes. Qed.

(* 4-byte operands are exactly |v| <= 2^31-1, 5-byte operands |v| <= 2^39-1 (from the codec theorems) *)
Theorem C10_operand_range : forall b, bytes_ok b ->
  ((length b <= 4)%nat -> Z.abs (spec_value b) < 2 ^ 31) /\ ((length b <= 5)%nat -> Z.abs (spec_value b) < 2 ^ 39).
Proof. intros b Hb. split; intros Hl. apply (spec_value_range 3 b Hb Hl). apply (spec_value_range 4 b Hb Hl). Qed.

Theorem C10_script_size : forall c script stack succ ed t,
  i_operational (setup_env c script stack succ ed t) = negb (negb (c_sigver c =? SV_TAPSCRIPT) && (10000 <? zlen script)).
Proof. exact setup_operational. Qed.

Section Steps.
Variables (low_s : bytes -> bool) (c : cfg).

Theorem C10_push_exceeded : forall e pc opcode push pc' local,
  get_op pc = (Some (opcode, push), pc') -> 520 < zlen push ->
  step_script low_s c e pc local = (set_err e SCRIPT_ERR_PUSH_SIZE, pc', SErr).
Proof. exact (push_too_big low_s c). Qed.

Theorem C10_stack_bound : forall e pc local e1 pc1,
  step_script low_s c e pc local = (e1, pc1, SOk) -> llen (e_stack e1) + llen (e_alt e1) <= 1000.
Proof. exact (step_stack_bound low_s c). Qed.

Theorem C10_opcount_exceeded : forall e pc opcode pc' local,
  get_op pc = (Some (opcode, []), pc') -> 96 < opcode ->
  (c_sigver c = SV_BASE \/ c_sigver c = SV_WITNESS_V0) -> 201 <= e_ops e ->
  step_script low_s c e pc local = (set_err (set_ops e (e_ops e + 1)) SCRIPT_ERR_OP_COUNT, pc', SErr).
Proof. exact (opcount_exceeded low_s c). Qed.
End Steps.

(* the initial witness stack (BIP141 / BIP342), checked when the session is set up: no item above 520 bytes in segwit v0 and tapscript, at most
   1000 items in tapscript, nothing for a legacy session - exactly *)
Theorem C10_witness_stack_limits : forall sigver stack,
  witness_limits_violation sigver stack = None <->
  ((sigver = SV_WITNESS_V0 \/ sigver = SV_TAPSCRIPT) ->
   Forall (fun it => zlen it <= 520) stack /\ (sigver = SV_TAPSCRIPT -> (length stack <= 1000)%nat)).
Proof. exact witness_limits_iff. Qed.

Print Assumptions C10_guards.
Print Assumptions C10_script_size.
Print Assumptions C10_push_exceeded.
Print Assumptions C10_stack_bound.
Print Assumptions C10_opcount_exceeded.
Print Assumptions C10_operand_range.
Print Assumptions C10_witness_stack_limits.
