(* C04 - Rewind exactly undoes steps. Statements only (proofs in SessionProofs.v / FrameProofs.v).
   Model: BV.Session (StepScript(InterpreterEnv&) with its snapshot vectors, RewindScript, Instance::rewind). *)
From BV Require Import Base ScriptNum Script Interp Session FrameProofs SessionProofs HistoryProofs.
Local Open Scope Z_scope.

Section C04.
Variables (low_s : bytes -> bool) (tap_tweak_ok : bytes -> bytes -> bytes -> bool -> bool) (sha256 : bytes -> bytes) (c : cfg).

(* an accepted rewind after a successful step returns EXACTLY the previous session state: every component -
   stack, alt stack, condition stack, pbegincodehash, execdata (code separator position, signature budget),
   op count, opcode position, pc, listing position and the remaining history *)
Theorem C04_rewind_undoes_step : forall v v',
  wf v -> i_tce v = None -> i_pc v <> [] ->
  inst_step low_s tap_tweak_ok sha256 c v = (v', StepOk) -> dbg_rewind v' = Some v.
Proof. exact (rewind_undoes_step low_s tap_tweak_ok sha256 c). Qed.

(* hence any interleaving: stepping k times, rewinding, is stepping k-1 times (one instance of the general fact;
   the history tree follows by induction since the restored state is identical, not merely observably equal) *)
Corollary C04_step_step_rewind : forall v v1 v2,
  wf v1 -> i_tce v1 = None -> i_pc v1 <> [] ->
  inst_step low_s tap_tweak_ok sha256 c v = (v1, StepOk) ->
  inst_step low_s tap_tweak_ok sha256 c v1 = (v2, StepOk) ->
  dbg_rewind v2 = Some v1.
Proof. intros v v1 v2 Hwf Ht Hp _ H2. exact (rewind_undoes_step low_s tap_tweak_ok sha256 c v1 v2 Hwf Ht Hp H2). Qed.

(* the end-of-script marker is the only thing undone when rewinding from the finished state *)
Theorem C04_rewind_from_done : forall v, at_start v = false -> i_done v = true ->
  exists v', dbg_rewind v = Some v' /\ i_done v' = false /\ i_pc v' = i_pc v /\ i_hist v' = i_hist v /\ i_seq v' = i_seq v /\
             e_stack (i_e v') = e_stack (i_e v) /\ e_alt (i_e v') = e_alt (i_e v) /\ e_cond (i_e v') = e_cond (i_e v).
Proof. exact rewind_from_done. Qed.

(* a rewind that cannot be performed is refused: no new state is produced *)
Theorem C04_rewind_refused : forall v, at_start v = true -> dbg_rewind v = None.
Proof. exact rewind_refused_at_start. Qed.

(* one interpreter step never touches the script and, when it succeeds, leaves the error slot alone *)
Theorem C04_step_frame : forall e pc local,
  let r := step_script low_s c e pc local in framed e (fst (fst r), snd r).
Proof. exact (step_script_framed low_s c). Qed.
(* every interleaving of successful steps and accepted rewinds - any length, any order - ends in the state reached by the net number of
   steps alone, so the state after a history depends on nothing but (steps minus rewinds) *)
Theorem C04_interleaving_is_net_steps : forall v0 v n,
  steps_and_rewinds low_s tap_tweak_ok sha256 c v0 v n -> steps_only low_s tap_tweak_ok sha256 c v0 v n.
Proof. exact (interleaving_is_net low_s tap_tweak_ok sha256 c). Qed.

Theorem C04_history_independent : forall v0 v1 v2 n,
  steps_and_rewinds low_s tap_tweak_ok sha256 c v0 v1 n -> steps_and_rewinds low_s tap_tweak_ok sha256 c v0 v2 n -> v1 = v2.
Proof. exact (history_independent low_s tap_tweak_ok sha256 c). Qed.
End C04.

Print Assumptions C04_rewind_undoes_step.
Print Assumptions C04_rewind_from_done.
Print Assumptions C04_rewind_refused.
Print Assumptions C04_step_frame.
Print Assumptions C04_interleaving_is_net_steps.
Print Assumptions C04_history_independent.
