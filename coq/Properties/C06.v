(* C06 - tap: printed address and witnesses verify, whatever leaf is spent. Statements only (TapProofs.v, TceProofs.v).
   Model: TapTool (tree construction of tap.cpp main, TapBranch::Prove, control block, bech32m address).
   The theorems hold for EVERY node-hash function that is symmetric in its arguments (the sorted TapBranch hash is), every
   number of leaves n >= 1 and every leaf index i < n - no bound on n. secp256k1_xonly_pubkey_tweak_add and SHA-256 are parameters.
   PARTIAL, stated: that the reported signature hash is the BIP341 digest is part of C02 (sighash model); 'a signature over it
   validates' is exercised by the round trip in the C02/C03 correspondence, not proved (elliptic-curve arithmetic is an oracle). *)
From BV Require Import Base BaseProofs ScriptNum Script Session Codecs CodecsTheorems TapTool TapProofs TceProofs.
Local Open Scope Z_scope.

Section Generic.
Variable hash : Type.
Variable Hs : hash -> hash -> hash.
Hypothesis Hs_comm : forall a b, Hs a b = Hs b a.

(* a tree is always produced, it contains exactly the given leaves, in order *)
Theorem C06_build_total : forall hs : list hash, hs <> [] -> exists t, build hash hs = Some t.
Proof. exact (build_total hash Hs Hs_comm). Qed.
Theorem C06_build_leaves : forall hs t, build hash hs = Some t -> leaves hash t = combine (seq 0 (length hs)) hs.
Proof. exact (build_leaves hash). Qed.

(* for every leaf index the emitted proof, folded from that leaf's hash, gives the root the address commits to *)
Theorem C06_proof_verifies : forall hs t i, build hash hs = Some t -> (i < length hs)%nat ->
  verify hash Hs (nth i hs (root hash Hs t)) (prove hash Hs t i) = root hash Hs t.
Proof. exact (tool_proof_verifies hash Hs Hs_comm). Qed.

Theorem C06_proof_length_is_depth : forall (t : tree hash) i, length (prove hash Hs t i) = depth hash t i.
Proof. exact (prove_length hash Hs). Qed.
End Generic.

(* the sorted TapBranch hash is symmetric, and it is the function the debugger's stepwise check folds with *)
Theorem C06_branch_symmetric : forall sha256 a b, length a = length b -> Hb sha256 a b = Hb sha256 b a.
Proof. exact Hb_comm. Qed.

(* the address does not depend on whether / which leaf is selected (the selection only adds the control block) *)
Theorem C06_address_independent : forall tw hrp key scripts i r0 r1,
  tap_run tw hrp key scripts None = Some r0 -> tap_run tw hrp key scripts (Some i) = Some r1 ->
  tr_address r0 = tr_address r1 /\ tr_output_key r0 = tr_output_key r1 /\ tr_root r0 = tr_root r1.
Proof.
  intros tw hrp key scripts i r0 r1. unfold tap_run.
  destruct (build bytes (map tap_leaf_hash scripts)) as [t|]; [|discriminate].
  destruct (tw key (tap_tweak_hash key (root bytes tap_branch_hash t))) as [[x ev]|]; [|discriminate].
  intros H0 H1. inversion H0; inversion H1; subst. cbn. repeat split.
Qed.

(* the address is the bech32m encoding of the output key and decodes back to it *)
Theorem C06_address_roundtrip : forall hrp x,
  hrp <> [] -> Forall (fun c => 33 <= c <= 126 /\ ~ (65 <= c <= 90)) hrp -> bytes_ok x -> length x = 32%nat ->
  Z.of_nat (length hrp) + 8 + (8 * 32 + 4) / 5 <= 90 ->
  value_bech32_dec_full (value_bech32_enc true hrp x) = B32Data true 2 hrp 1 x.
Proof. intros hrp x H1 H2 H3 H4 H5. apply value_bech32_roundtrip; auto. rewrite H4. exact H5. Qed.

(* depth bound: the proof of any leaf is never longer than the height of the tree, and for every n up to 1024 leaves
   (tap's limit) the tree built has height at most 128, the control block limit. The shape depends only on n; finite
   sweep over n = 1..1024 on index trees, bound stated. *)
Theorem C06_proof_le_height : forall hash Hs (t : tree hash) i, (length (prove hash Hs t i) <= height hash t)%nat.
Proof. intros. rewrite prove_length. apply depth_le_height. Qed.
Definition height_of (n : nat) : nat := match build nat (seq 0 n) with Some t => height nat t | None => 1000%nat end.
Theorem C06_depth_bound : forallb (fun n => (height_of n <=? 128)%nat) (seq 1 1024) = true.
Proof. vm_compute. reflexivity. Qed.

Print Assumptions C06_proof_verifies.
Print Assumptions C06_build_leaves.
Print Assumptions C06_address_independent.
Print Assumptions C06_address_roundtrip.
Print Assumptions C06_depth_bound.
