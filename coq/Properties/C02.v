(* C02 - Signature opcodes accept exactly the signatures valid for the BIP-defined digest. Statements only; proofs in SigProofs.v.
   Model: BV.Sighash (SignatureHash legacy/BIP143, PrecomputedTransactionData, SignatureHashSchnorr, the transaction signature checker),
   BV.Interp (EvalChecksig*, OP_CHECKSIG(VERIFY), OP_CHECKSIGADD, OP_CHECKMULTISIG(VERIFY), encoding checks).
   SHA-256 and the two elliptic-curve verification predicates are parameters of the statements: the theorems say which digest, key and
   signature bytes reach them and what the opcodes do with their verdict; the correspondence check compares exactly those arguments
   with the ones the implementation passes to CPubKey::Verify / XOnlyPubKey::VerifySchnorr. *)
From BV Require Import Base Script Interp Session Tx Sighash SigProofs.
From BV.Gen Require Import Consts Sites.
Local Open Scope Z_scope.

(* --- which digest *)
(* legacy: the script code is serialised with every OP_CODESEPARATOR operation removed, and nothing else changed *)
Theorem C02_legacy_script_code_strips_codeseparators : forall code, parses (S (length code)) code = true ->
  ser_script_code code = wr_bytes_vec (strip_codeseps (S (length code)) code).
Proof. exact ser_script_code_spec. Qed.

Theorem C02_strip_is_identity_without_codeseparators : forall fuel pc, (length pc < fuel)%nat -> parses fuel pc = true ->
  count_codeseps fuel pc = 0 -> strip_codeseps fuel pc = pc.
Proof. exact strip_no_codesep_id. Qed.

(* legacy SIGHASH_SINGLE with no matching output signs the constant 1 *)
Theorem C02_single_without_output_is_one : forall sha256 t code nIn ht amount cache sigver,
  (sigver =? SV_WITNESS_V0) = false -> hash_single ht = true -> Z.of_nat (length (tx_vout t)) <= nIn ->
  signature_hash sha256 t code nIn ht amount sigver cache = UINT256_ONE.
Proof. exact single_without_output. Qed.

(* BIP143: the cached midstates never change a digest *)
Theorem C02_bip143_cache_transparent : forall sha256 t spent force code nIn ht amount,
  bip143_preimage sha256 t code nIn ht amount (txdata_init sha256 t spent force) = bip143_preimage sha256 t code nIn ht amount empty_txdata.
Proof. exact bip143_cache_transparent. Qed.

(* BIP341/342: undefined hash types have no digest; the message commits to the annex flag, to key path vs script path, and (tapscript)
   to the position of the last executed OP_CODESEPARATOR *)
Theorem C02_schnorr_undefined_hashtype_has_no_digest : forall sha256 ed t pos ht sv cache h,
  0 <= ht -> valid_schnorr_hashtype ht = false -> signature_hash_schnorr sha256 ed t pos ht sv cache <> SrHash h.
Proof. exact schnorr_undefined_hashtype_fails. Qed.

Theorem C02_bip341_commits_to_annex_flag : forall sha256 ed1 ed2 t pos ht sv cache m,
  bip341_msg sha256 ed1 t pos ht sv cache = Some m -> bip341_msg sha256 ed2 t pos ht sv cache = Some m ->
  ed_annex_present ed1 = ed_annex_present ed2.
Proof. exact bip341_commits_to_annex_presence. Qed.

Theorem C02_bip341_commits_to_codeseparator_position : forall sha256 ed t pos ht cache p1 p2 m,
  bip341_msg sha256 (ed_set_codesep ed p1) t pos ht SV_TAPSCRIPT cache = Some m ->
  bip341_msg sha256 (ed_set_codesep ed p2) t pos ht SV_TAPSCRIPT cache = Some m ->
  p1 mod two32 = p2 mod two32.
Proof. exact bip341_commits_to_codesep_pos. Qed.

Theorem C02_bip341_separates_key_path_and_script_path : forall sha256 ed t pos ht cache m1 m2,
  bip341_msg sha256 ed t pos ht SV_TAPROOT cache = Some m1 -> bip341_msg sha256 ed t pos ht SV_TAPSCRIPT cache = Some m2 -> m1 <> m2.
Proof. exact bip341_commits_to_ext_flag. Qed.

(* --- accepted exactly when the signature verifies for that digest *)
Theorem C02_ecdsa_check_exact : forall sha256 ecdsa_verify x sig key code sigver,
  chk_ecdsa sha256 ecdsa_verify x sig key code sigver = true <->
  pubkey_is_valid key = true /\ sig <> [] /\ ((sigver =? SV_WITNESS_V0) && (x_amount x <? 0) = false) /\
  ecdsa_verify key (signature_hash sha256 (x_tx x) code (x_nin x) (vlast sig) (x_amount x) sigver (x_cache x)) (removelast sig) = true.
Proof. exact chk_ecdsa_exact. Qed.

Theorem C02_schnorr_check_exact : forall sha256 schnorr_verify x sig key sigver ed,
  fst (chk_schnorr sha256 schnorr_verify x sig key sigver ed) = true <->
  exists ht body h, ((zlen sig = 64 /\ ht = SIGHASH_DEFAULT /\ body = sig) \/ (zlen sig = 65 /\ ht = vlast sig /\ ht <> SIGHASH_DEFAULT /\ body = removelast sig)) /\
     signature_hash_schnorr sha256 ed (x_tx x) (x_nin x) ht sigver (x_cache x) = SrHash h /\ schnorr_verify key h body = true.
Proof. intros sha256 sv. exact (chk_schnorr_exact sha256 (fun _ _ _ => true) sv). Qed.

(* OP_CHECKSIG before tapscript: a normal result is the checker's verdict on the script code (legacy: with the signature deleted from it),
   reached only if both encodings pass, and false only for an empty signature when NULLFAIL is active *)
Theorem C02_checksig_result_is_the_verdict : forall low_s c e sig key e' b,
  eval_checksig_pre low_s c e sig key = (e', SOk, b) ->
  exists code0, script_code e = Some code0 /\ e' = e /\
    check_sig_encoding low_s (c_flags c) sig = None /\ check_pubkey_encoding (c_flags c) (c_sigver c) key = None /\
    b = k_ecdsa (c_chk c) sig key (if c_sigver c =? SV_BASE then fst (find_and_delete code0 (push_data sig)) else code0) (c_sigver c) /\
    (b = false -> has_flag (c_flags c) SCRIPT_VERIFY_NULLFAIL = true -> sig = []).
Proof. exact checksig_pre_exact. Qed.

Theorem C02_nullfail : forall low_s c e sig key code0,
  script_code e = Some code0 -> negb (c_sigver c =? SV_BASE) = true ->
  check_sig_encoding low_s (c_flags c) sig = None -> check_pubkey_encoding (c_flags c) (c_sigver c) key = None ->
  k_ecdsa (c_chk c) sig key code0 (c_sigver c) = false -> has_flag (c_flags c) SCRIPT_VERIFY_NULLFAIL = true -> sig <> [] ->
  eval_checksig_pre low_s c e sig key = (set_err e SCRIPT_ERR_SIG_NULLFAIL, SErr, false).
Proof. exact checksig_pre_nullfail. Qed.

(* --- encoding errors by flags *)
Theorem C02_signature_encoding_errors : forall low_s flags sig, sig <> [] ->
  check_sig_encoding low_s flags sig =
    if (has_flag flags SCRIPT_VERIFY_DERSIG || has_flag flags SCRIPT_VERIFY_LOW_S || has_flag flags SCRIPT_VERIFY_STRICTENC) && negb (is_valid_sig_encoding sig)
    then Some SCRIPT_ERR_SIG_DER
    else if has_flag flags SCRIPT_VERIFY_LOW_S && negb (low_s (removelast sig)) then Some SCRIPT_ERR_SIG_HIGH_S
    else if has_flag flags SCRIPT_VERIFY_STRICTENC && negb (is_defined_hashtype sig) then Some SCRIPT_ERR_SIG_HASHTYPE
    else None.
Proof. exact sig_encoding_rules. Qed.

Theorem C02_pubkey_encoding_errors : forall flags sigver k,
  check_pubkey_encoding flags sigver k =
    if has_flag flags SCRIPT_VERIFY_STRICTENC && negb (is_compressed_or_uncompressed k) then Some SCRIPT_ERR_PUBKEYTYPE
    else if has_flag flags SCRIPT_VERIFY_WITNESS_PUBKEYTYPE && (sigver =? SV_WITNESS_V0) && negb (is_compressed k) then Some SCRIPT_ERR_WITNESS_PUBKEYTYPE
    else None.
Proof. exact pubkey_encoding_rules. Qed.

(* null-dummy: under NULLDUMMY a non-empty extra element of OP_CHECKMULTISIG is the SIG_NULLDUMMY error; otherwise the dummy is dropped
   and the result of the matching pushed (CHECKMULTISIGVERIFY consumes it or fails with its own error) *)
Theorem C02_nulldummy : forall c e2 fS opcode, 1 <= ssize e2 ->
  has_flag (c_flags c) SCRIPT_VERIFY_NULLDUMMY = true -> stop e2 1 <> [] ->
  multisig_finish c e2 fS opcode = fail e2 SCRIPT_ERR_SIG_NULLDUMMY.
Proof. exact multisig_nulldummy. Qed.

Theorem C02_multisig_result : forall c e2 fS opcode, 1 <= ssize e2 ->
  (has_flag (c_flags c) SCRIPT_VERIFY_NULLDUMMY = true -> stop e2 1 = []) ->
  multisig_finish c e2 fS opcode =
    if opcode =? OP_CHECKMULTISIGVERIFY
    then (if fS then ok (popn e2 1) else fail (pushs (popn e2 1) (bool_vch false)) SCRIPT_ERR_CHECKMULTISIGVERIFY)
    else ok (pushs (popn e2 1) (bool_vch fS)).
Proof. exact multisig_result. Qed.

(* --- multisig: the verification loop computes the in-order matching of signatures to keys ... *)
Theorem C02_multisig_loop_is_ordered_matching : forall low_s c e code fuel sigsR keysR isig ikey,
  (forall idx, (idx < length sigsR)%nat -> stop e (Z.to_nat (isig + Z.of_nat idx)) = nth idx sigsR []) ->
  (forall idx, (idx < length keysR)%nat -> stop e (Z.to_nat (ikey + Z.of_nat idx)) = nth idx keysR []) ->
  0 <= isig -> 0 <= ikey ->
  (forall k, In k keysR -> pv_has_key c k = false /\ check_pubkey_encoding (c_flags c) (c_sigver c) k = None) ->
  (forall s, In s sigsR -> check_sig_encoding low_s (c_flags c) s = None) ->
  (length keysR < fuel)%nat -> (length sigsR <= length keysR)%nat ->
  multisig_loop low_s fuel c e code isig ikey (Z.of_nat (length sigsR)) (Z.of_nat (length keysR))
  = (e, SOk, ms_spec (fun s k => k_ecdsa (c_chk c) s k code (c_sigver c)) sigsR keysR).
Proof. exact multisig_loop_spec. Qed.

(* ... which succeeds exactly when the signatures embed into the keys preserving order, one key per signature *)
Theorem C02_ordered_matching_characterisation : forall v sigs keys, ms_spec v sigs keys = true <-> ordered_match v sigs keys.
Proof. exact ms_spec_iff_ordered_match. Qed.

(* --- tapscript: every non-empty signature costs 50 units of validation weight, and running out is an error *)
Theorem C02_tapscript_validation_weight : forall c e sig key e' st b,
  eval_checksig_tapscript c e sig key = (e', st, b) -> ed_weight_init (e_ed e) = true ->
  b = negb (zlen sig =? 0) /\
  ed_weight_left (e_ed e') = ed_weight_left (e_ed e) - (if b then VALIDATION_WEIGHT_PER_SIGOP_PASSED else 0) /\
  (b = true -> ed_weight_left (e_ed e) < VALIDATION_WEIGHT_PER_SIGOP_PASSED -> st = SErr /\ e_err e' = SCRIPT_ERR_TAPSCRIPT_VALIDATION_WEIGHT).
Proof. exact (tapscript_weight_charged (fun _ => true)). Qed.

(* the comparison GENERATED from EvalChecksigTapscript: the budget is exhausted only below zero (using it up exactly is fine) *)
Theorem C02_weight_exhausted_only_below_zero : forall w, cmp_eval site_weight_exhausted w 0 = (w <? 0).
Proof. reflexivity. Qed.

(* non-vacuity: a script with two code separators, one inside a push-free IF branch *)
Example C02_strip_example :
  let code := [OP_0; OP_IF; OP_CODESEPARATOR; OP_ENDIF; 2; 7; 8; OP_CODESEPARATOR; OP_CHECKSIG] in
  parses (S (length code)) code = true /\ strip_codeseps (S (length code)) code = [OP_0; OP_IF; OP_ENDIF; 2; 7; 8; OP_CHECKSIG].
Proof. vm_compute. split; reflexivity. Qed.

Print Assumptions C02_legacy_script_code_strips_codeseparators.
Print Assumptions C02_strip_is_identity_without_codeseparators.
Print Assumptions C02_single_without_output_is_one.
Print Assumptions C02_bip143_cache_transparent.
Print Assumptions C02_schnorr_undefined_hashtype_has_no_digest.
Print Assumptions C02_bip341_commits_to_annex_flag.
Print Assumptions C02_bip341_commits_to_codeseparator_position.
Print Assumptions C02_bip341_separates_key_path_and_script_path.
Print Assumptions C02_ecdsa_check_exact.
Print Assumptions C02_schnorr_check_exact.
Print Assumptions C02_checksig_result_is_the_verdict.
Print Assumptions C02_nullfail.
Print Assumptions C02_signature_encoding_errors.
Print Assumptions C02_pubkey_encoding_errors.
Print Assumptions C02_nulldummy.
Print Assumptions C02_multisig_result.
Print Assumptions C02_multisig_loop_is_ordered_matching.
Print Assumptions C02_ordered_matching_characterisation.
Print Assumptions C02_tapscript_validation_weight.
Print Assumptions C02_weight_exhausted_only_below_zero.
