(* C14 - Value transforms compute their defined functions and invert each other. Statements only.
   Proofs: CodecsProofs.v (base58 / bech32 / ConvertBits, from the C++ algorithms), TransformProofs.v, Hashes.v.
   PARTIAL, stated: SHA-256, RIPEMD-160, SHA-1 are Gallina transcriptions of their standards (Hashes.v, checked on the
   standard vectors inside Coq, compared with the C++ by execution); the Jacobi symbol is proved equal to Euler's
   criterion only for every n below every odd prime <= 61 (finite sweep) and tested beyond; the elliptic-curve
   transforms are not modelled; base58check corruption detection is probabilistic (2^-32) and only tested. *)
From BV Require Import Base BaseProofs ScriptNum Script Value Codecs CodecsProofs CodecsTheorems Hashes Tx Transforms TransformProofs.
Local Open Scope Z_scope.

(* --- codecs (for the algorithms as written in base58.cpp / bech32.cpp / strencodings.h) *)
Theorem C14_base58_roundtrip : forall b n, bytes_ok b -> (length b <= n)%nat -> base58_decode (base58_encode b) n = Some b.
Proof. exact base58_roundtrip. Qed.
Theorem C14_base58_rejects_non_alphabet : forall s n c, In c s -> ~ In c b58_alphabet -> Codecs.is_space c = false -> base58_decode s n = None.
Proof. exact base58_rejects_non_alphabet. Qed.
Theorem C14_base58check_roundtrip : forall H b n, (forall x, length (H x) = 32%nat /\ bytes_ok (H x)) -> bytes_ok b -> (length b <= n)%nat ->
  base58check_decode H (base58check_encode H b) n = Some b.
Proof. exact base58check_roundtrip. Qed.
Theorem C14_convert_bits_roundtrip : forall b, bytes_ok b ->
  exists v, convert_bits 8 5 true b = Some v /\ Forall (fun x => 0 <= x < 32) v /\ convert_bits 5 8 false v = Some b.
Proof. exact convert_bits_8_5_roundtrip. Qed.
Theorem C14_bech32_roundtrip : forall enc hrp values, enc = 1 \/ enc = 2 -> hrp <> [] ->
  Forall (fun c => 33 <= c <= 126 /\ ~ (65 <= c <= 90)) hrp -> Forall (fun x => 0 <= x < 32) values ->
  (length hrp + 7 + length values <= 90)%nat -> bech32_decode (bech32_encode enc hrp values) = Some (enc, hrp, values).
Proof. exact bech32_roundtrip. Qed.
(* every single-character substitution in the data part of a valid bech32(m) string is rejected *)
Theorem C14_bech32_detects_substitution : forall h pre c post c' r,
  ~ In 49 (pre ++ c :: post) -> bech32_decode (h ++ 49 :: pre ++ c :: post) = Some r ->
  c' <> 49 -> bech32_rev c' <> bech32_rev c -> bech32_decode (h ++ 49 :: pre ++ c' :: post) = None.
Proof. exact bech32_detects_single_substitution. Qed.

(* --- transforms *)
Theorem C14_tf_base58chk_inverse : forall d, bytes_ok d -> (length d <= 200)%nat ->
  forall s, m_base58chkenc (VData d) = TOk [] (VString s) -> m_base58chkdec (VString s) = TOk [] (VData d).
Proof. exact tf_base58chk_roundtrip. Qed.
Theorem C14_tf_bech32_inverse : forall (m : bool) d, bytes_ok d -> (length d <= 48)%nat ->
  forall s, m_bech32enc m (VData d) = TOk [] (VString s) -> m_bech32dec (VString s) = TOk (BECH32_PRE m default_bech32_hrp) (VData d).
Proof. exact tf_bech32_roundtrip. Qed.
Theorem C14_tf_addr_spk_inverse : forall h, bytes_ok h -> length h = 20%nat ->
  exists addr, m_spk_to_addr (VData (p2pkh_script h)) = TOk [] (VString addr) /\ m_addr_to_spk (VString addr) = TOk [] (VData (p2pkh_script h)).
Proof. exact tf_addr_spk_inverse. Qed.
Theorem C14_tf_add : forall a b g, 0 <= a < g -> 0 <= b < g -> g < 2 ^ 256 -> uadd a b g = (a + b) mod g.
Proof. exact tf_add_mod. Qed.
Theorem C14_tf_sub : forall a b g, 0 <= a < g -> 0 <= b < g -> g < 2 ^ 256 -> uadd a ((g - b) mod 2 ^ 256) g = (a - b) mod g.
Proof. exact tf_sub_mod. Qed.
Theorem C14_tf_compact_prefix : forall n, 0 <= n -> compact_prefix n = write_compact_size n.
Proof. exact tf_compact_prefix. Qed.
Theorem C14_tf_hashes : forall v,
  m_sha256 v = TOk [] (VData (sha256 (dv v))) /\ m_ripemd160 v = TOk [] (VData (ripemd160 (dv v))) /\
  m_hash256 v = TOk [] (VData (sha256 (sha256 (dv v)))) /\ m_hash160 v = TOk [] (VData (ripemd160 (sha256 (dv v)))).
Proof. exact tf_hashes. Qed.
Theorem C14_tagged_hash : forall tag msg, tagged_hash tag msg = sha256 (sha256 tag ++ sha256 tag ++ msg).
Proof. exact tagged_hash_eq. Qed.
Theorem C14_tf_hex_int : forall i d, hex_str (VInt i) = hexstr (sn_serialize i) /\ int_value (VData d) = sn_ctor d false 4.
Proof. exact tf_hex_int. Qed.
(* Jacobi symbol = Euler's criterion, bound: all n < p for the odd primes p <= 61 *)
Theorem C14_jacobi_partial : jacobi_sweep = true.
Proof. exact tf_jacobi_small_primes. Qed.
(* inline form and command form reach the same method for every tf entry except the three listed (generated tables) *)
Theorem C14_inline_eq_command :
  tf_without_inline = [ [98;101;99;104;51;50;109;45;101;110;99;111;100;101]; [108;101;110];
                        [118;101;114;105;102;121;45;115;105;103;45;99;111;109;112;97;99;116] ].
Proof. exact tf_inline_coverage. Qed.

Print Assumptions C14_base58check_roundtrip.
Print Assumptions C14_bech32_roundtrip.
Print Assumptions C14_bech32_detects_substitution.
Print Assumptions C14_tf_base58chk_inverse.
Print Assumptions C14_tf_bech32_inverse.
Print Assumptions C14_tf_addr_spk_inverse.
Print Assumptions C14_tf_sub.
Print Assumptions C14_inline_eq_command.
