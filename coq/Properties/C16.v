(* C16 - exec applies operations exactly as the script would. Statements only.
   Model: Session.inst_eval = iterate Interp.step_script (THE SAME step function the script stepping uses, with the
   same cfg: flags, script version, options) over the compiled token script; Value.exec_compile = token parser. *)
From BV Require Import Base ScriptNum Script Interp Session Value FrameProofs SessionProofs.
From BV Require Gen.Consts.
Local Open Scope Z_scope.

Section C16.
Variables (low_s : bytes -> bool) (c : cfg).

(* exec leaves the script position, the script, the listing position, the history and the session flags untouched *)
Theorem C16_exec_preserves_position : forall v scr v' st,
  inst_eval low_s c v scr = (v', st) ->
  i_pc v' = i_pc v /\ e_script (i_e v') = e_script (i_e v) /\ i_seq v' = i_seq v /\ i_hist v' = i_hist v /\
  i_done v' = i_done v /\ i_succ v' = i_succ v /\ i_p2sh v' = i_p2sh v.
Proof. exact (exec_preserves_position low_s c). Qed.

(* exec runs the SAME step function as script stepping: for every operation other than OP_CODESEPARATOR the step
   taken on behalf of exec equals the step the script would take on the same environment (same stacks, condition
   stack, flags, version) - same new state, same error *)
Theorem C16_exec_step_is_script_step : forall e pc opcode push pc',
  get_op pc = (Some (opcode, push), pc') -> opcode <> Gen.Consts.OP_CODESEPARATOR ->
  step_script low_s c e pc true = step_script low_s c e pc false.
Proof. exact (exec_step_is_script_step low_s c). Qed.

Theorem C16_exec_single_op : forall v scr e1 st, scr <> [] -> step_script low_s c (i_e v) scr true = (e1, [], st) ->
  inst_eval low_s c v scr = (upd v e1 (i_pc v), st).
Proof. exact (exec_single_op low_s c). Qed.

(* several operations: exec is by definition the iteration of that step, stopping at the first failure *)
Theorem C16_exec_unfold : forall fuel e b r,
  eval_loop low_s (S fuel) c e (b :: r) =
  match step_script low_s c e (b :: r) true with
  | (e1, it1, SOk) => eval_loop low_s fuel c e1 it1
  | (e1, _, st) => (e1, st)
  end.
Proof. reflexivity. Qed.
End C16.

(* token classification used by exec *)
Example C16_tokens :
  exec_compile [[79;80;95;68;85;80]; [53]; [97;98]; [45;49]; [49;55]] [] = Some [118; 85; 1; 171; 79; 1; 17]
  /\ exec_compile [[90;90]] [] = None.
Proof. split; vm_compute; reflexivity. Qed.

Print Assumptions C16_exec_preserves_position.
Print Assumptions C16_exec_step_is_script_step.
Print Assumptions C16_exec_single_op.
