(* C09 - Flag modification is exact and verification flags only ever restrict. Statements only (FlagProofs.v).
   The svf table, the STANDARD set and the list of flag tests are GENERATED from the source on every run.
   Whole-execution monotonicity (success under B implies the same success under A for A <= B) is proved for every step, for every
   evaluation (EvalScript) and for the whole script-only debugger session; for sessions with several scripts (scriptSig + scriptPubKey,
   P2SH) it is proved per evaluation only, because removing the P2SH flag changes WHICH scripts are evaluated (the final environment is
   then that of an earlier script) - that case is evaluated on paired runs of the implementation. Also proved: every flag test in the
   executed interpreter code has a restrictive shape (generated site list). *)
From BV Require Import Base BaseProofs ScriptNum Script Interp Session Value Transforms Cli FlagProofs FlagStepProofs VerifySpec FlagEvalProofs.
From BV.Gen Require Import Consts CliTables.
Local Open Scope Z_scope.

(* the flag table: 21 distinct names with distinct single-bit values, covering exactly the flags of the enum *)
Theorem C09_table_ok : table_ok = true.
Proof. exact table_ok_true. Qed.

(* +NAME sets exactly that bit, -NAME clears exactly that bit *)
Theorem C09_set_exact : forall flags k j, 0 <= k -> 0 <= j -> Z.testbit (Z.lor flags (2 ^ k)) j = Z.testbit flags j || (j =? k).
Proof. exact set_bit_exact. Qed.
Theorem C09_clear_exact : forall flags k j, 0 <= k -> 0 <= j -> Z.testbit (Z.land flags (Z.lnot (2 ^ k))) j = Z.testbit flags j && negb (j =? k).
Proof. exact clear_bit_exact. Qed.

(* a known +/-NAME token applies its modification and parsing continues; anything else is rejected *)
Theorem C09_parse_known : forall toks flags name add f,
  assoc_s svf_table name = Some f -> f <> 0 -> zlen (mod_token name add) < svf_buf_size ->
  svf_apply (mod_token name add :: toks) flags = svf_apply toks (apply_mod flags (add, f)).
Proof. exact svf_apply_known. Qed.
Theorem C09_parse_rejects : forall toks flags,
  (forall name sign, assoc_s svf_table name = None -> svf_apply ((sign :: name) :: toks) flags = None) /\
  (forall c name, c <> 43 -> c <> 45 -> svf_apply ((c :: name) :: toks) flags = None) /\
  svf_apply ([] :: toks) flags = None.
Proof. intros. repeat split. intros; apply svf_apply_unknown; assumption. intros; apply svf_apply_nosign; assumption. Qed.
Theorem C09_split_join : forall toks, toks <> [] -> Forall (fun t => ~ In 44 t) toks -> split_commas (join_commas toks) [] = toks.
Proof. exact split_join. Qed.

(* --default-flags lists exactly the standard set, which is also what the session starts from *)
Theorem C09_default_list : default_list_ok = true.
Proof. exact default_list_ok_true. Qed.

(* every test of a verification flag has a restrictive shape (fail-if-set, nop-if-unset, minimality request, P2SH phase) *)
Theorem C09_flag_sites_restrictive : forallb (fun s => restrictive (snd s)) flag_sites = true.
Proof. exact flag_sites_restrictive. Qed.

(* the flag-dependent checks are monotone *)
Theorem C09_checks_monotone : forall low_s A B, flags_sub A B ->
  (forall v n z, sn_ctor v true n = Ok z -> sn_ctor v false n = Ok z) /\
  (forall sig, check_sig_encoding low_s B sig = None -> check_sig_encoding low_s A sig = None) /\
  (forall sv k, check_pubkey_encoding B sv k = None -> check_pubkey_encoding A sv k = None).
Proof.
  intros low_s A B Hs. repeat split. apply sn_ctor_monotone. intros; eapply check_sig_encoding_monotone; eassumption.
  intros; eapply check_pubkey_encoding_monotone; eassumption.
Qed.

(* VERIFICATION FLAGS ONLY EVER RESTRICT, for every step: whatever one step does successfully under a flag set B - any opcode incl. the
   signature opcodes, any stack, any script version, inside or outside exec - it does identically under every subset A of B
   (flags only add failure conditions: minimal encodings, CLTV/CSV, discouraged NOPs / key types, MINIMALIF, CONST_SCRIPTCODE,
   signature and key encodings, NULLFAIL, NULLDUMMY) *)
Theorem C09_step_only_restricts : forall low_s c A B, flags_sub A B -> forall e pc local e1 pc1,
  step_script low_s (with_flags c B) e pc local = (e1, pc1, SOk) -> step_script low_s (with_flags c A) e pc local = (e1, pc1, SOk).
Proof. exact step_script_mono. Qed.

(* ... for every evaluation: an EvalScript run that succeeds under B succeeds with the same final environment under every subset A of B *)
Theorem C09_evaluation_only_restricts : forall low_s c A B, flags_sub A B -> forall e pc e1,
  eval_ref low_s (with_flags c B) e pc = (e1, SOk) -> eval_ref low_s (with_flags c A) e pc = (e1, SOk).
Proof. exact eval_ref_mono. Qed.

(* ... and for the whole script-only session (btcdeb '[script]' stack..., not pay-to-script-hash shaped under B): if running it to the end
   succeeds under B, running it to the end under A succeeds with the same final environment *)
Theorem C09_script_session_only_restricts : forall low_s tap_tweak_ok sha256 c A B, flags_sub A B -> forall script stack ed f,
  script <> [] -> i_p2sh (setup_env (with_flags c B) script stack [] ed None) = false -> (length script + 6 <= f)%nat ->
  forall vB, Session.dbg_continue low_s tap_tweak_ok sha256 f (with_flags c B) (setup_env (with_flags c B) script stack [] ed None) = (vB, SOk) ->
  exists vA, Session.dbg_continue low_s tap_tweak_ok sha256 f (with_flags c A) (setup_env (with_flags c A) script stack [] ed None) = (vA, SOk)
             /\ i_e vA = i_e vB /\ i_done vA = true.
Proof. exact script_session_mono. Qed.

Example C09_ex : svf_parse_flags main_initial_flags [45;78;85;76;76;68;85;77;77;89;44;43;83;73;71;80;85;83;72;79;78;76;89] (* "-NULLDUMMY,+SIGPUSHONLY" *)
  = Some (Z.lor (Z.land STANDARD_SCRIPT_VERIFY_FLAGS (Z.lnot SCRIPT_VERIFY_NULLDUMMY)) SCRIPT_VERIFY_SIGPUSHONLY)
  /\ svf_parse_flags main_initial_flags [43;70;79;79] = None /\ svf_parse_flags main_initial_flags [] = None
  /\ svf_parse_flags main_initial_flags [43;80;50;83;72;44] = None.
Proof. repeat split; vm_compute; reflexivity. Qed.

Print Assumptions C09_table_ok.
Print Assumptions C09_step_only_restricts.
Print Assumptions C09_evaluation_only_restricts.
Print Assumptions C09_script_session_only_restricts.
Print Assumptions C09_parse_known.
Print Assumptions C09_default_list.
Print Assumptions C09_flag_sites_restrictive.
Print Assumptions C09_checks_monotone.
