(* C12 - The script listing and position marker show exactly what executes next. Statements only; proofs in ListingProofs.v.
   Model: BV.Cli (script_lines as built by main(): listing_sections / listing / session_listing, fn_print's marker: marked_line),
   BV.Session (curr_op_seq bookkeeping inside StepScript(InterpreterEnv&) / RewindScript).
   Proved for sessions over ONE script (btcdeb <script> [stack...]), for legacy spends with a scriptSig and a (non-P2SH) scriptPubKey
   section, and for tapscript spends (commitment lines, then the committed script); sessions with a P2SH section are decided by the pty
   correspondence only (C12_marker_p2sh_section is not proved). *)
From BV Require Import Base Script Interp Session Value Cli ListingProofs.
Local Open Scope Z_scope.

(* every operation line carries its own index as number; headers occupy an index *)
Theorem C12_line_numbers_are_positions : forall texts i k b t, nth_error texts k = Some (b, t) ->
  nth_error (number_from i texts) k = Some (if b then numbered (i + Z.of_nat k) t else t).
Proof. exact number_from_nth. Qed.

Theorem C12_nothing_marked_past_the_end : forall lines seq, Z.of_nat (length lines) <= seq -> marked_line lines seq = None.
Proof. exact marked_none_past_end. Qed.

(* the listing is the exact decoding of the script, in execution order *)
Theorem C12_listing_is_the_decoding : forall c script stack ed,
  i_p2sh (setup_env c script stack [] ed None) = false ->
  session_listing c (setup_env c script stack [] ed None) = number_from 0 (map (fun op => (true, op_line op)) (decode_ops script)).
Proof. exact session_listing_plain. Qed.

(* in EVERY state reached by successful steps (any number, any opcodes, any flags, any script version) the position counter counts the
   operations before the program counter ... *)
Theorem C12_position_counts_executed_operations : forall low_s tap_tweak_ok sha256 c script stack ed v,
  i_p2sh (setup_env c script stack [] ed None) = false ->
  reach low_s tap_tweak_ok sha256 c (setup_env c script stack [] ed None) v ->
  single v /\ marker_inv v /\ e_script (i_e v) = script.
Proof. exact marker_inv_reachable. Qed.

(* ... hence the marked line is the numbered rendering of the operation the next step fetches ... *)
Theorem C12_marker_designates_the_next_operation : forall v op pc',
  marker_inv v -> get_op (i_pc v) = (Some op, pc') ->
  marked_line (plain_listing (e_script (i_e v))) (i_seq v) = Some (numbered (i_seq v) (op_line op)).
Proof. exact (marker_designates_next_op (fun _ => true) (fun _ _ _ _ => true) (fun b => b)). Qed.

(* ... and after the last operation nothing is marked as pending *)
Theorem C12_nothing_pending_after_the_last_operation : forall v,
  marker_inv v -> i_pc v = [] -> marked_line (plain_listing (e_script (i_e v))) (i_seq v) = None.
Proof. exact marker_none_at_end. Qed.

(* --- legacy spends: scriptSig, "<<< scriptPubKey >>>" header, scriptPubKey (bare / P2PKH / multisig outputs) *)
Theorem C12_two_section_listing : forall c script succ stack ed, succ <> [] ->
  i_p2sh (setup_env c script stack succ ed None) = false -> (has_flag (c_flags c) Gen.Consts.SCRIPT_VERIFY_P2SH && is_p2sh_script succ) = false ->
  session_listing c (setup_env c script stack succ ed None) = two_listing script succ.
Proof. exact session_listing_two. Qed.

Theorem C12_two_section_invariant_start : forall c script succ stack ed, i_p2sh (setup_env c script stack succ ed None) = false ->
  inv2 script succ (setup_env c script stack succ ed None).
Proof. exact inv2_init. Qed.

Theorem C12_two_section_invariant_step : forall low_s tap_tweak_ok sha256 c script succ v v', succ <> [] -> p2sh_shape (c_flags c) succ = false ->
  inv2 script succ v -> Session.dbg_step low_s tap_tweak_ok sha256 c v = (v', SOk) -> inv2 script succ v'.
Proof. exact inv2_step. Qed.

(* the marker designates the next operation; at the end of the scriptSig it is on the header of the section the next step enters; after the
   last operation of the scriptPubKey nothing is marked *)
Theorem C12_two_section_marker : forall script succ v, succ <> [] -> inv2 script succ v ->
  match i_pc v with
  | _ :: _ => forall op pc', get_op (i_pc v) = (Some op, pc') ->
               marked_line (two_listing script succ) (i_seq v) = Some (numbered (i_seq v) (op_line op))
  | [] => if (match i_succ v with [] => false | _ => true end)
          then marked_line (two_listing script succ) (i_seq v) = Some HDR_SPK
          else marked_line (two_listing script succ) (i_seq v) = None
  end.
Proof. exact (two_sections_marker (fun _ => true) (fun _ _ _ _ => true) (fun b => b)). Qed.

(* --- tapscript spends: one line per commitment step (the node that step hashes, then the tweak check), then the committed script *)
Theorem C12_tapscript_listing : forall c t0 script stack ed, (c_sigver c =? SV_TAPSCRIPT) = true ->
  i_p2sh (setup_env c script stack [] ed (Some t0)) = false ->
  session_listing c (setup_env c script stack [] ed (Some t0)) = tap_listing t0 script.
Proof. exact session_listing_tap. Qed.

Theorem C12_tapscript_invariant_start : forall c t0 script stack ed, 0 <= t_path_len t0 -> t_i t0 = 0 ->
  i_p2sh (setup_env c script stack [] ed (Some t0)) = false -> inv_tap t0 script (setup_env c script stack [] ed (Some t0)).
Proof. exact (inv_tap_init (fun _ => true) (fun _ _ _ _ => true) (fun b => b)). Qed.

Theorem C12_tapscript_invariant_step : forall low_s tap_tweak_ok sha256 c t0 script v v', 0 <= t_path_len t0 ->
  inv_tap t0 script v -> Session.dbg_step low_s tap_tweak_ok sha256 c v = (v', SOk) -> inv_tap t0 script v'.
Proof. exact inv_tap_step. Qed.

Theorem C12_tapscript_marker : forall t0 script v, 0 <= t_path_len t0 -> inv_tap t0 script v ->
  match i_tce v with
  | Some t =>
      if t_i t <? t_path_len t0
      then marked_line (tap_listing t0 script) (i_seq v) =
           Some (numbered (i_seq v) (TXT_BRANCH ++ hexstr (firstn 32 (skipn (Z.to_nat (Gen.Consts.TAPROOT_CONTROL_BASE_SIZE + Gen.Consts.TAPROOT_CONTROL_NODE_SIZE * t_i t)) (t_control t0)))))
      else marked_line (tap_listing t0 script) (i_seq v) = Some (numbered (i_seq v) (TXT_TWEAK ++ hexstr (firstn 32 (skipn 1 (t_control t0)))))
  | None =>
      match i_pc v with
      | _ :: _ => forall op pc', get_op (i_pc v) = (Some op, pc') -> marked_line (tap_listing t0 script) (i_seq v) = Some (numbered (i_seq v) (op_line op))
      | [] => marked_line (tap_listing t0 script) (i_seq v) = None
      end
  end.
Proof. exact (tap_marker (fun _ => true) (fun _ _ _ _ => true) (fun b => b)). Qed.

(* --- pay-to-script-hash spends: scriptSig, "<<< scriptPubKey >>>", scriptPubKey, "<<< P2SH script >>>", redeem script *)
Theorem C12_three_section_listing : forall c script succ stack ed, succ <> [] -> (c_sigver c =? SV_TAPSCRIPT) = false ->
  (has_flag (c_flags c) Gen.Consts.SCRIPT_VERIFY_P2SH && is_p2sh_script succ) = true ->
  session_listing c (setup_env c script stack succ ed None) = three_listing script succ (last_push script).
Proof. exact session_listing_three. Qed.

(* every state reached by successful steps of such a spend whose scriptSig consists of data pushes (the standard form: signatures, then the
   serialized redeem script) satisfies the three-section invariant - through the switch to the scriptPubKey, where the stack is saved, and the
   switch to the redeem script, which is the scriptSig's last push ... *)
Theorem C12_p2sh_session_invariant : forall low_s tap_tweak_ok sha256 c script succ stack ed v,
  succ <> [] -> p2sh_shape (c_flags c) succ = true -> data_pushes script ->
  i_p2sh (setup_env c script stack succ ed None) = false ->
  reach low_s tap_tweak_ok sha256 c (setup_env c script stack succ ed None) v ->
  inv3 script succ (last_push script) v.
Proof. intros. eapply p2sh_session_reachable; eassumption. Qed.

(* ... for any scriptSig the invariant is kept by a step as long as the script listed as redeem script is the one on top of the stack when the
   scriptSig ends (stated separately because the listing is built before anything runs) ... *)
Theorem C12_three_section_invariant_step : forall low_s tap_tweak_ok sha256 c script succ redeem v v', succ <> [] -> p2sh_shape (c_flags c) succ = true ->
  (i_succ v = succ -> i_pc v = [] -> exists rest, e_stack (i_e v) = redeem :: rest) ->
  inv3 script succ redeem v -> Session.dbg_step low_s tap_tweak_ok sha256 c v = (v', SOk) -> inv3 script succ redeem v'.
Proof. exact inv3_step. Qed.

(* ... and in every state of the invariant the marker designates the next operation, at the end of a section the header of the section the
   next step enters, and after the last operation of the redeem script nothing *)
Theorem C12_three_section_marker : forall script succ redeem v, succ <> [] -> inv3 script succ redeem v ->
  match i_pc v with
  | _ :: _ => forall op pc', get_op (i_pc v) = (Some op, pc') ->
               marked_line (three_listing script succ redeem) (i_seq v) = Some (numbered (i_seq v) (op_line op))
  | [] => if (match i_succ v with [] => false | _ => true end) then marked_line (three_listing script succ redeem) (i_seq v) = Some HDR_SPK
          else if i_p2sh v then marked_line (three_listing script succ redeem) (i_seq v) = Some HDR_P2SH
          else marked_line (three_listing script succ redeem) (i_seq v) = None
  end.
Proof. exact (three_sections_marker (fun _ => true) (fun _ _ _ _ => true) (fun b => b)). Qed.

(* non-vacuity: <07> <51 87> is such a scriptSig (two data pushes; the redeem script listed is 5187) *)
Example C12_data_pushes_ex : data_pushes [1; 7; 2; 81; 135] /\ last_push [1; 7; 2; 81; 135] = [81; 135].
Proof.
  assert (E: decode_ops [1; 7; 2; 81; 135] = [(1, [7]); (2, [81; 135])]) by (vm_compute; reflexivity).
  split; [split; rewrite E; [discriminate|repeat constructor; cbn [fst]; change Gen.Consts.OP_PUSHDATA4 with 78; lia]|vm_compute; reflexivity].
Qed.

Print Assumptions C12_line_numbers_are_positions.
Print Assumptions C12_tapscript_listing.
Print Assumptions C12_tapscript_invariant_start.
Print Assumptions C12_tapscript_invariant_step.
Print Assumptions C12_tapscript_marker.
Print Assumptions C12_two_section_listing.
Print Assumptions C12_two_section_invariant_start.
Print Assumptions C12_two_section_invariant_step.
Print Assumptions C12_two_section_marker.
Print Assumptions C12_three_section_listing.
Print Assumptions C12_p2sh_session_invariant.
Print Assumptions C12_three_section_invariant_step.
Print Assumptions C12_three_section_marker.
Print Assumptions C12_nothing_marked_past_the_end.
Print Assumptions C12_listing_is_the_decoding.
Print Assumptions C12_position_counts_executed_operations.
Print Assumptions C12_marker_designates_the_next_operation.
Print Assumptions C12_nothing_pending_after_the_last_operation.
