(* C12 - The script listing and position marker show exactly what executes next. Statements only; proofs in ListingProofs.v. *)
From BV Require Import Base Script Interp Session Value Cli ListingProofs.
Local Open Scope Z_scope.

Theorem C12_line_numbers_are_positions : forall texts i k b t, nth_error texts k = Some (b, t) ->
  nth_error (number_from i texts) k = Some (if b then numbered (i + Z.of_nat k) t else t).
Proof. exact number_from_nth. Qed.

Theorem C12_nothing_marked_past_the_end : forall lines seq, Z.of_nat (length lines) <= seq -> marked_line lines seq = None.
Proof. exact marked_none_past_end. Qed.

Print Assumptions C12_line_numbers_are_positions.
Print Assumptions C12_nothing_marked_past_the_end.
