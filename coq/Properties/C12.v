(* C12 - The script listing and position marker show exactly what executes next. Statements only; proofs in ListingProofs.v.
   Model: BV.Cli (script_lines as built by main(): listing_sections / listing / session_listing, fn_print's marker: marked_line),
   BV.Session (curr_op_seq bookkeeping inside StepScript(InterpreterEnv&) / RewindScript).
   Proved for sessions over ONE script (btcdeb <script> [stack...]); sessions with scriptPubKey / P2SH / taproot-commitment sections are
   decided by the pty correspondence only (C12_marker_multi_section is not proved). *)
From BV Require Import Base Script Interp Session Value Cli ListingProofs.
Local Open Scope Z_scope.

(* every operation line carries its own index as number; headers occupy an index *)
Theorem C12_line_numbers_are_positions : forall texts i k b t, nth_error texts k = Some (b, t) ->
  nth_error (number_from i texts) k = Some (if b then numbered (i + Z.of_nat k) t else t).
Proof. exact number_from_nth. Qed.

Theorem C12_nothing_marked_past_the_end : forall lines seq, Z.of_nat (length lines) <= seq -> marked_line lines seq = None.
Proof. exact marked_none_past_end. Qed.

(* the listing is the exact decoding of the script, in execution order *)
Theorem C12_listing_is_the_decoding : forall c script stack ed,
  i_p2sh (setup_env c script stack [] ed None) = false ->
  session_listing c (setup_env c script stack [] ed None) = number_from 0 (map (fun op => (true, op_line op)) (decode_ops script)).
Proof. exact session_listing_plain. Qed.

(* in EVERY state reached by successful steps (any number, any opcodes, any flags, any script version) the position counter counts the
   operations before the program counter ... *)
Theorem C12_position_counts_executed_operations : forall low_s tap_tweak_ok sha256 c script stack ed v,
  i_p2sh (setup_env c script stack [] ed None) = false ->
  reach low_s tap_tweak_ok sha256 c (setup_env c script stack [] ed None) v ->
  single v /\ marker_inv v /\ e_script (i_e v) = script.
Proof. exact marker_inv_reachable. Qed.

(* ... hence the marked line is the numbered rendering of the operation the next step fetches ... *)
Theorem C12_marker_designates_the_next_operation : forall v op pc',
  marker_inv v -> get_op (i_pc v) = (Some op, pc') ->
  marked_line (plain_listing (e_script (i_e v))) (i_seq v) = Some (numbered (i_seq v) (op_line op)).
Proof. exact (marker_designates_next_op (fun _ => true) (fun _ _ _ _ => true) (fun b => b)). Qed.

(* ... and after the last operation nothing is marked as pending *)
Theorem C12_nothing_pending_after_the_last_operation : forall v,
  marker_inv v -> i_pc v = [] -> marked_line (plain_listing (e_script (i_e v))) (i_seq v) = None.
Proof. exact marker_none_at_end. Qed.

Print Assumptions C12_line_numbers_are_positions.
Print Assumptions C12_nothing_marked_past_the_end.
Print Assumptions C12_listing_is_the_decoding.
Print Assumptions C12_position_counts_executed_operations.
Print Assumptions C12_marker_designates_the_next_operation.
Print Assumptions C12_nothing_pending_after_the_last_operation.
