(* C11 - Mock signatures affect exactly the listed signature/key pairs. Statements only; proofs in PretendProofs.v.
   Model: BV.Pretend.parse_pretend_valid (Instance::parse_pretend_valid_expr), BV.Interp eval_checksig / multisig_loop / multisig_fad
   (EvalChecksig short-circuit, OP_CHECKMULTISIG mock branch). [no_pv c] is the same configuration without the option. *)
From BV Require Import Base Script Interp Value TxCli Pretend PretendProofs.
Local Open Scope Z_scope.

(* --- a listed pair succeeds, before any transaction context or encoding rule is looked at *)
Theorem C11_listed_pair_succeeds_in_checksig : forall low_s c e sig key,
  pv_has_key c key = true -> pv_match c sig key = true -> eval_checksig low_s c e sig key = (e, SOk, true).
Proof. exact pv_listed_checksig. Qed.

Theorem C11_listed_pair_matches_in_multisig : forall low_s f c e code isig ikey nSigs nKeys,
  0 < nSigs -> pv_has_key c (stop e (Z.to_nat ikey)) = true -> pv_match c (stop e (Z.to_nat isig)) (stop e (Z.to_nat ikey)) = true ->
  multisig_loop low_s (S f) c e code isig ikey nSigs nKeys =
  if nKeys - 1 <? nSigs - 1 then (e, SOk, false) else multisig_loop low_s f c e code (isig + 1) (ikey + 1) (nSigs - 1) (nKeys - 1).
Proof. exact pv_listed_multisig_turn. Qed.

(* every pair of every list the option parser accepts is honoured *)
Theorem C11_every_parsed_pair_succeeds : forall low_s do_exec expr m keys s k c e,
  parse_pretend_valid do_exec expr = PvOk m keys -> In (s, k) m -> c_pv_map c = m -> c_pv_keys c = keys ->
  eval_checksig low_s c e s k = (e, SOk, true).
Proof. exact parsed_pairs_succeed. Qed.

(* --- another signature for a mocked key is never accepted on the strength of the option *)
Theorem C11_other_signature_gets_ordinary_verdict : forall low_s c e sig key,
  pv_match c sig key = false -> eval_checksig low_s c e sig key = eval_checksig low_s (no_pv c) e sig key.
Proof. exact pv_other_signature. Qed.

Theorem C11_other_signature_fails_in_multisig : forall low_s f c e code isig ikey nSigs nKeys,
  0 < nSigs -> pv_has_key c (stop e (Z.to_nat ikey)) = true -> pv_match c (stop e (Z.to_nat isig)) (stop e (Z.to_nat ikey)) = false ->
  multisig_loop low_s (S f) c e code isig ikey nSigs nKeys =
  if nKeys - 1 <? nSigs then (e, SOk, false) else multisig_loop low_s f c e code isig (ikey + 1) nSigs (nKeys - 1).
Proof. exact pv_multisig_other_signature. Qed.

(* --- checks that do not involve a mocked key run exactly as without the option *)
Theorem C11_unmocked_key_untouched : forall low_s c e sig key,
  pv_has_key c key && pv_match c sig key = false -> eval_checksig low_s c e sig key = eval_checksig low_s (no_pv c) e sig key.
Proof. exact pv_checksig_unlisted. Qed.

Theorem C11_multisig_over_unmocked_keys_untouched : forall low_s c e code f isig ikey nSigs nKeys,
  (forall n, pv_has_key c (stop e n) = false) ->
  multisig_loop low_s f c e code isig ikey nSigs nKeys = multisig_loop low_s f (no_pv c) e code isig ikey nSigs nKeys.
Proof. exact pv_multisig_loop_unmocked. Qed.

Theorem C11_multisig_script_code_untouched : forall c keys sigs code,
  pv_consistent c -> (forall k, In k keys -> pv_has_key c k = false) ->
  multisig_fad c keys code sigs = multisig_fad (no_pv c) keys code sigs.
Proof. exact pv_multisig_fad_unmocked. Qed.

Theorem C11_parsed_table_is_consistent : forall do_exec expr m keys c,
  parse_pretend_valid do_exec expr = PvOk m keys -> c_pv_map c = m -> c_pv_keys c = keys -> pv_consistent c.
Proof. exact parsed_table_consistent. Qed.

(* --- malformed lists are rejected: in an accepted list ':' and ',' alternate starting with ':', and nothing ends in a dangling signature *)
Theorem C11_accepted_lists_alternate : forall do_exec expr m keys,
  parse_pretend_valid do_exec expr = PvOk m keys -> alternating false (seps expr) = true.
Proof. intros do_exec expr m keys H. unfold parse_pretend_valid in H. eapply accepted_lists_alternate. exact H. Qed.

Theorem C11_dangling_signature_refused : forall do_exec fuel sig m keys, pv_loop do_exec (S fuel) [] true sig m keys = PvRefused.
Proof. exact dangling_signature_refused. Qed.

Example C11_rejections : alternating false (seps [97; 58; 58; 98]) = false /\ alternating false (seps [97; 44; 98]) = false /\ alternating false (seps [97; 58; 98; 44; 99; 58; 100]) = true.
Proof. vm_compute. repeat split. Qed.

Print Assumptions C11_listed_pair_succeeds_in_checksig.
Print Assumptions C11_listed_pair_matches_in_multisig.
Print Assumptions C11_every_parsed_pair_succeeds.
Print Assumptions C11_other_signature_gets_ordinary_verdict.
Print Assumptions C11_other_signature_fails_in_multisig.
Print Assumptions C11_unmocked_key_untouched.
Print Assumptions C11_multisig_over_unmocked_keys_untouched.
Print Assumptions C11_multisig_script_code_untouched.
Print Assumptions C11_parsed_table_is_consistent.
Print Assumptions C11_accepted_lists_alternate.
Print Assumptions C11_dangling_signature_refused.
