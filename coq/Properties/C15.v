(* C15 - No input makes the tools crash. Statements only; proofs in SafetyProofs.v.
   What a model can carry: the model's explicit crash outcomes (CfgCrash, SCrash: failed assertion, dangling iterator, division by zero, undefined
   shift / signed overflow) are unreachable. What it cannot exhibit - accesses outside allocated memory, use after free, uninitialised reads - is
   decided on the running code by the sanitizer / memcheck part of the check (see DESIGN.md). *)
From BV Require Import Base Script Interp Session Tx TxCli Sighash Configure SafetyProofs.
Local Open Scope Z_scope.

Theorem C15_configuration_never_indexes_outside_the_funding_tx : forall sha256 ripemd160 spend funding txid sel i n,
  select_input spend funding txid sel = Some (i, n) -> configure sha256 ripemd160 spend funding i n <> CfgCrash.
Proof. exact configure_no_crash. Qed.
(* one interpreter step - any opcode, any stack, any flags, any script version, inside or outside exec - returns a result, an error or a caught
   exception; none of the model's crash outcomes (failed assertion incl. the default branches of the numeric / extended opcode switches, dangling
   script iterator, division by zero, undefined shift, signed overflow) is reachable from a safe environment *)
Theorem C15_step_never_crashes : forall low_s c e pc local, safe c e -> forall x, snd (step_script low_s c e pc local) <> SCrash x.
Proof. exact step_script_no_crash. Qed.

(* sessions start safe: setup_environment points pbegincodehash at the script; a tapscript configuration (C03_v1_setup) initialises the weight *)
Theorem C15_sessions_start_safe : forall c script stack succ ed t,
  ((c_sigver c =? SV_BASE) || (c_sigver c =? SV_WITNESS_V0) || (c_sigver c =? SV_TAPROOT) = false -> ed_weight_init ed = true) ->
  safe c (i_e (setup_env c script stack succ ed t)).
Proof. exact setup_env_safe. Qed.

(* the safe environment is kept by every step, whatever its status ... *)
Theorem C15_step_keeps_environment_safe : forall low_s c e pc local, safe c e -> safe c (fst (fst (step_script low_s c e pc local))).
Proof. exact step_script_keeps_safe. Qed.

(* ... so a whole session - any number of debugger steps incl. the scriptSig -> scriptPubKey -> P2SH redeem script switches and the taproot
   commitment phase, whatever each step returns - never reaches a crash outcome (this is the theorem whose proof attempt exposed the
   assert(!stack.empty()) abort repaired in /repo 737d35f) *)
Theorem C15_session_never_crashes : forall low_s tap_tweak_ok sha256 c n v, safe c (i_e v) ->
  forall x, snd (Session.dbg_step low_s tap_tweak_ok sha256 c (steps low_s tap_tweak_ok sha256 c n v)) <> SCrash x.
Proof. exact session_never_crashes. Qed.

(* ... and not only steps: ANY sequence of the commands that touch the environment - step, rewind, exec <local script> - from a safe session
   never ends a command in a crash outcome and keeps the session safe. The session invariant [ssafe] also covers the history: every snapshot
   rewind can restore carries a live pbegincodehash and, for tapscript, an initialised weight budget. *)
Theorem C15_commands_never_crash : forall low_s tap_tweak_ok sha256 c cms v, ssafe c v ->
  snd (run_cmds low_s tap_tweak_ok sha256 c v cms) = false /\ ssafe c (fst (run_cmds low_s tap_tweak_ok sha256 c v cms)).
Proof. exact commands_never_crash. Qed.
Theorem C15_sessions_start_command_safe : forall c script stack succ ed t,
  ((c_sigver c =? SV_BASE) || (c_sigver c =? SV_WITNESS_V0) || (c_sigver c =? SV_TAPROOT) = false -> ed_weight_init ed = true) ->
  ssafe c (setup_env c script stack succ ed t).
Proof. exact setup_env_ssafe. Qed.

Print Assumptions C15_configuration_never_indexes_outside_the_funding_tx.
Print Assumptions C15_step_keeps_environment_safe.
Print Assumptions C15_session_never_crashes.
Print Assumptions C15_commands_never_crash.
Print Assumptions C15_sessions_start_command_safe.
Print Assumptions C15_step_never_crashes.
Print Assumptions C15_sessions_start_safe.
