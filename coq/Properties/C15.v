(* C15 - No input makes the tools crash. Statements only; proofs in SafetyProofs.v.
   What a model can carry: the model's explicit crash outcomes (CfgCrash, SCrash: failed assertion, dangling iterator, division by zero, undefined
   shift / signed overflow) are unreachable. What it cannot exhibit - accesses outside allocated memory, use after free, uninitialised reads - is
   decided on the running code by the sanitizer / memcheck part of the check (see DESIGN.md). *)
From BV Require Import Base Script Interp Session Tx TxCli Sighash Configure SafetyProofs.
Local Open Scope Z_scope.

Theorem C15_configuration_never_indexes_outside_the_funding_tx : forall sha256 ripemd160 spend funding txid sel i n,
  select_input spend funding txid sel = Some (i, n) -> configure sha256 ripemd160 spend funding i n <> CfgCrash.
Proof. exact configure_no_crash. Qed.
Print Assumptions C15_configuration_never_indexes_outside_the_funding_tx.
