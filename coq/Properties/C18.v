(* C18 - Script-number encoding is a bijection on minimal encodings.
   This file contains statements only; every proof is [exact <lemma>] into ScriptNumProofs.v.
   Model: BV.ScriptNum (CScriptNum::serialize / set_vch / checking constructor, Value conversions).
   Spec:  spec_value (sign-magnitude little-endian value), spec_minimal (canonical form). *)
From BV Require Import Base BaseProofs ScriptNum ScriptNumProofs.
Local Open Scope Z_scope.

(* every integer whose magnitude fits the serializer's word (fuel 8 = uint64) round-trips; stated for
   every fuel so there is no bound on the integer *)
Theorem C18_decode_encode : forall fuel z, Z.abs z < 256 ^ Z.of_nat fuel ->
  sn_set_vch (sn_serialize_fuel fuel z) = z.
Proof. exact serialize_then_set_vch. Qed.

Theorem C18_decode_encode_int64 : forall z, - 2 ^ 63 <= z < 2 ^ 63 -> sn_set_vch (sn_serialize z) = z.
Proof. intros z Hz. apply serialize_then_set_vch. change (256 ^ Z.of_nat 8) with (2 ^ 64). lia. Qed.

Theorem C18_encode_wellformed_minimal : forall fuel z, Z.abs z < 256 ^ Z.of_nat fuel ->
  bytes_ok (sn_serialize_fuel fuel z) /\ spec_minimal (sn_serialize_fuel fuel z).
Proof. intros. split. apply serialize_ok; auto. apply serialize_minimal; auto. Qed.

(* uniqueness: a minimal string is the encoding of its value *)
Theorem C18_minimal_unique : forall fuel b, bytes_ok b -> (length b <= fuel)%nat -> spec_minimal b ->
  sn_serialize_fuel fuel (sn_set_vch b) = b.
Proof. exact set_vch_then_serialize. Qed.

(* the decoder computes the value Bitcoin assigns to the string (any length) *)
Theorem C18_decode_value : forall b, bytes_ok b -> sn_set_vch b = spec_value b.
Proof. exact set_vch_is_spec_value. Qed.

(* the checking constructor: overflow iff too long, non-minimal rejected exactly when minimal encoding is
   required, otherwise the specification value *)
Theorem C18_ctor_cases : forall b req max, bytes_ok b ->
  (sn_ctor b req max = Exn EXN_NUMOVERFLOW /\ (max < length b)%nat) \/
  (sn_ctor b req max = Exn EXN_NONMINIMAL /\ (length b <= max)%nat /\ req = true /\ ~ spec_minimal b) \/
  (sn_ctor b req max = Ok (spec_value b) /\ (length b <= max)%nat /\ (req = true -> spec_minimal b)).
Proof. exact ctor_cases. Qed.

(* n-byte operands are exactly the integers of magnitude below 2^(8n-1) *)
Theorem C18_range_of_length : forall n b, bytes_ok b -> (length b <= S n)%nat ->
  Z.abs (spec_value b) < 128 * 256 ^ Z.of_nat n.
Proof. exact spec_value_range. Qed.

Theorem C18_length_of_range : forall fuel n z, Z.abs z < 256 ^ Z.of_nat fuel -> Z.abs z < 128 * 256 ^ Z.of_nat n ->
  (length (sn_serialize_fuel fuel z) <= S n)%nat.
Proof. exact serialize_length. Qed.

(* the debugger's conversions are this codec *)
Theorem C18_value_conversions : forall i d,
  value_int_data_value i = sn_serialize i /\
  value_int_hex_str i = hexstr (sn_serialize i) /\
  value_data_int_value d = sn_ctor d false 4.
Proof. intros. repeat split. Qed.

(* non-vacuity: concrete instances meeting the hypotheses *)
Example C18_ex1 : sn_serialize (-255) = [255; 128] /\ sn_set_vch [255; 128] = -255 /\ spec_minimal [255; 128].
Proof. repeat split. right. exists 255, []. split. reflexivity. lia. Qed.
Example C18_ex2 : sn_ctor [0; 128] true 4 = Exn EXN_NONMINIMAL /\ sn_ctor [0; 128] false 4 = Ok 0.
Proof. split; reflexivity. Qed.
Example C18_ex3 : sn_ctor [1;2;3;4;5] false 4 = Exn EXN_NUMOVERFLOW /\ sn_ctor [1;2;3;4;5] false 5 = Ok 21542142465.
Proof. split; reflexivity. Qed.

Print Assumptions C18_decode_encode.
Print Assumptions C18_decode_encode_int64.
Print Assumptions C18_encode_wellformed_minimal.
Print Assumptions C18_minimal_unique.
Print Assumptions C18_decode_value.
Print Assumptions C18_ctor_cases.
Print Assumptions C18_range_of_length.
Print Assumptions C18_length_of_range.
Print Assumptions C18_value_conversions.
